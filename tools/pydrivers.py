"""Drivers whose 'execution' is a compiler or cargo run (C06, C11, C12, C19). They only generate programs /
declarations, run the real toolchain on the repository's working tree and record verdicts as events;
the expected verdicts are computed by TLC from the specification."""
import json, os, sys, shutil, random, subprocess, time
sys.path.insert(0, os.path.dirname(__file__))
import qv
import compile_probe as cp


def write_trace(path, header, events, evname):
    with open(path, 'w', encoding='utf-8') as f:
        f.write(json.dumps(header, ensure_ascii=False) + '\n')
        for e in events:
            e = dict(e)
            e['ev'] = evname
            f.write(json.dumps(e, ensure_ascii=False) + '\n')


def empty_obs(ctx, be):
    p = os.path.join(ctx['rundir'], 'obs_empty_%s.json' % be)
    json.dump({'be': be, 'registry': 'none', 'order': [], 'types': {}}, open(p, 'w'))
    return p


def source_derivations(repo, declared):
    """Derivations DECLARED IN THE SOURCES (#[quantity(A op B)] ... struct R) that the hand-written catalogue does
    not know (a new derived quantity, or a changed derivation).  The catalogue is a lower bound: what such a
    declaration makes type-check is, by the property's own wording, 'related by a declared derivation'."""
    import re, glob
    known = {}
    for t in declared['types']:
        dv = t.get('derive')
        if dv:
            known[(t['crate'], t.get('rust', t['T'].split('.')[-1]))] = (dv['op'], dv['l'].split('.')[-1], dv['r'].split('.')[-1])
    extra = []
    for crate, files, pfx in (('quantities', sorted(glob.glob(os.path.join(repo, 'src', '*.rs'))), ''),
                              ('astro', sorted(glob.glob(os.path.join(repo, 'astronimical_quantities', 'src', '*.rs'))), 'astro.')):
        names = {t.get('rust', t['T'].split('.')[-1]) for t in declared['types'] if t['crate'] == crate}
        for f in files:
            src = open(f, encoding='utf-8').read()
            cut = src.find('#[cfg(test)]')
            src = src if cut < 0 else src[:cut]
            for m in re.finditer(r'#\[\s*quantity\s*\(\s*(\w+)\s*([*/])\s*(\w+)\s*\)\s*\]', src):
                ms = re.search(r'\bstruct\s+(\w+)', src[m.end():])
                if not ms:
                    continue
                l, op, r, res = m.group(1), m.group(2), m.group(3), ms.group(1)
                l, r = ('Amount' if l == 'AmountT' else l), ('Amount' if r == 'AmountT' else r)
                if known.get((crate, res)) == (op, l, r):
                    continue

                def nm(x):
                    return 'Amount' if x == 'AmountT' else (pfx + x if x in names else x)
                extra.append({'op': op, 'l': nm(l), 'r': nm(r), 'res': nm(res)})
    return extra


def c06(ctx):
    """1350 (+150 astronomical) binary-operator programs per back-end, then type-ascription variants of the accepted
    ones; the same over VERIF_SEED-generated derivation graphs (definitions rendered through the real macro)."""
    import gen_decl
    out = []
    declared = qv.load_declared(os.path.join(ctx['spec'], 'catalogue.json'))
    decl_path = ctx['declared_for']('cat')
    extra_dv = source_derivations(ctx['repo'], declared)
    groups = [('cat', declared, decl_path, ['Amount'] + [t['T'] for t in declared['types'] if t['crate'] == 'quantities'], False, ''),
              ('astro', declared, decl_path, ['Amount'] + [t['T'] for t in declared['types'] if t['crate'] == 'astro'], True, '')]
    # generated derivation graphs
    ngraphs = 1 if ctx['tier'] == 'quick' else 6
    for g in range(ngraphs):
        reg = qv.normalise(gen_decl.gen_registry(ctx['seed'] * 53 + g, n_base=3, n_derived=3, prefix='Y'))
        for t in reg['types']:
            t['path'] = 'crate::defs'
        gp = os.path.join(ctx['rundir'], 'c06_gen%d.json' % g)
        json.dump(reg, open(gp, 'w', encoding='utf-8'), ensure_ascii=False)
        dp = os.path.join(ctx['rundir'], 'decl_c06_gen%d.json' % g)
        json.dump(qv.tlc_declared(reg), open(dp, 'w', encoding='utf-8'), ensure_ascii=False)
        defs = ['pub mod defs {', '    use quantities::prelude::*;']
        for t in reg['types']:
            defs += qv.render_type(t)[0]
        defs.append('}')
        groups.append(('gen%d' % g, reg, dp, ['Amount'] + [t['T'] for t in reg['types']], False, '\n'.join(defs)))
    for be in ('f64', 'dec'):
        for gname, dreg, dpath, types, astro, prelude in groups:
            if astro and be == 'dec':
                continue   # the astronomical crate exists for the f64 back-end only
            tdir = os.path.join(ctx['work'], 'target_probe')
            lines, index, dt = cp.binop_programs(dreg, types)
            nhead = len(lines)
            body = '\n'.join(lines) + '\n' + prelude + '\n'
            d1 = os.path.join(ctx['rundir'], 'probe_%s_%s_1' % (gname, be))
            cp.write_crate(d1, ctx['repo'], be, body, astro=astro)
            rc, diags, dep_failed, err = cp.cargo_check(d1, tdir)
            if dep_failed:
                raise ctx['ToolError']('the repository does not build in configuration %s/%s: %s' % (gname, be, dep_failed[1][:300]))
            evs, stray = cp.verdicts(index, diags)
            stray = [d for d in stray if not d['lines'] or min(d['lines']) <= nhead]
            if stray and not prelude:
                raise ctx['ToolError']('diagnostics that cannot be attributed to a program: %s' % stray[:2])
            if prelude and [d for d in diags if d['lines'] and min(d['lines']) > nhead]:
                # the generated (well-formed, coherent) definitions themselves do not compile
                evs = [dict(e, verdict='err') for e in evs]
            accepted = [e for e in evs if e['verdict'] == 'ok']
            # second crate: the accepted programs with every possible result-type ascription
            lines2 = lines[:2]
            index2 = {}
            cp.add_ascriptions(lines2, index2, dt, accepted, types)
            d2 = os.path.join(ctx['rundir'], 'probe_%s_%s_2' % (gname, be))
            cp.write_crate(d2, ctx['repo'], be, '\n'.join(lines2) + '\n' + prelude + '\n', astro=astro)
            rc2, diags2, dep_failed2, err2 = cp.cargo_check(d2, tdir)
            evs2, stray2 = cp.verdicts(index2, diags2)
            if stray2 and not prelude:
                raise ctx['ToolError']('diagnostics that cannot be attributed to a program: %s' % stray2[:2])
            # thorough: a sample of rejected programs compiled on their own, to rule out masking between functions
            if ctx['tier'] == 'thorough':
                rnd = random.Random(ctx['seed'])
                rej = [e for e in evs if e['verdict'] == 'err']
                for e in rnd.sample(rej, min(len(rej), 40)):
                    d3 = os.path.join(ctx['rundir'], 'probe_single')
                    cp.write_crate(d3, ctx['repo'], be, '\n'.join(lines[:2] + [lines[e['line'] - 1]]) + '\n' + prelude + '\n', astro=astro)
                    rc3, diags3, _, _ = cp.cargo_check(d3, tdir)
                    alone = dict(e)
                    alone['verdict'] = 'err' if any(d['lines'] for d in diags3) or rc3 != 0 else 'ok'
                    alone['alone'] = True
                    evs2.append(alone)
            tp = os.path.join(ctx['rundir'], 'c06_%s_%s.ndjson' % (gname, be))
            if not prelude:
                for e in evs + evs2:
                    e['extra'] = extra_dv
            write_trace(tp, {'ev': 'Header', 'be': be, 'registry': gname, 'drv': 'c06', 'seed': ctx['seed'], 'tier': ctx['tier']}, evs + evs2, 'Compile')
            out.append(('c06_%s_%s' % (gname, be), tp, empty_obs(ctx, be), dpath))
            for d in (d1, d2):
                shutil.rmtree(d, ignore_errors=True)
    return out


def gen_registry_files(ctx, n_groups):
    """a seeded registry of well-formed declarations and its attribute-permuted twin (separate modules)"""
    import gen_decl
    seed = ctx['seed']
    types = []
    rate_pairs, lite, tables = [], [], []
    for g in range(n_groups):
        reg = gen_decl.gen_registry(seed * 131 + g, prefix='G', big=(g == 0))
        twin = gen_decl.permuted(reg, seed * 131 + g)
        ren = {t['T']: t['T'] + 'P' for t in twin['types']}
        for t in reg['types']:
            t['mod'] = 'defs%d' % g
            types.append(t)
        for t in twin['types']:
            t['T'] = ren[t['T']]
            t['rust'] = t['T']
            t['mod'] = 'defs%dp' % g
            if t.get('derive'):
                t['derive'] = {'op': t['derive']['op'], 'l': ren.get(t['derive']['l'], t['derive']['l']), 'r': ren.get(t['derive']['r'], t['derive']['r'])}
            for u in t['units']:
                df = u.get('def')
            types.append(t)
        rate_pairs += reg['rate_pairs']
        lite += reg['rate_pairs_lite']
        tables += reg['tables']
    full = {'_comment': 'generated registry, VERIF_SEED=%d' % seed, 'types': types, 'rate_pairs': rate_pairs,
            'rate_pairs_lite': lite, 'tables': tables}
    p = os.path.join(ctx['rundir'], 'gen_registry.json')
    json.dump(full, open(p, 'w', encoding='utf-8'), ensure_ascii=False, indent=1)
    dp = os.path.join(ctx['rundir'], 'decl_gen.json')
    json.dump(qv.tlc_declared(qv.load_declared(p)), open(dp, 'w', encoding='utf-8'), ensure_ascii=False)
    return p, dp


def run_gen_drivers(ctx, drivers, n_groups, tagprefix):
    p, dp = gen_registry_files(ctx, n_groups)
    ok, outp, bindir = ctx['build_gen'](p)
    out = []
    if not ok:
        # well-formed declarations (or the operators / constants the declaration promises) do not compile
        tp = os.path.join(ctx['rundir'], tagprefix + '_build.ndjson')
        write_trace(tp, {'ev': 'Header', 'be': 'f64', 'registry': 'gen', 'drv': tagprefix}, [{'verdict': 'err', 'output': outp[-1500:]}], 'GenBuild')
        return [(tagprefix + '_build', tp, empty_obs(ctx, 'f64'), dp)]
    tp = os.path.join(ctx['rundir'], tagprefix + '_build.ndjson')
    write_trace(tp, {'ev': 'Header', 'be': 'f64', 'registry': 'gen', 'drv': tagprefix}, [{'verdict': 'ok', 'output': ''}], 'GenBuild')
    out.append((tagprefix + '_build', tp, empty_obs(ctx, 'f64'), dp))
    for be in ('f64', 'dec'):
        exe = os.path.join(bindir, 'drive_' + be)
        obs = os.path.join(ctx['rundir'], 'obs_gen_%s.json' % be)
        ctx['drive_exe'](exe, ['dump', '--reg', 'gen', '--out', obs])
        for drv in drivers:
            tpath = os.path.join(ctx['rundir'], '%s_%s_%s.ndjson' % (tagprefix, drv, be))
            ctx['drive_exe'](exe, [drv, '--reg', 'gen', '--seed', str(ctx['seed']), '--tier', ctx['tier'], '--out', tpath])
            out.append(('%s_%s_%s' % (tagprefix, drv, be), tpath, obs, dp))
    return out


def c11(ctx):
    n = 1 if ctx['tier'] == 'quick' else 10
    drivers = ['units', 'lookup', 'c01', 'c02', 'c03', 'c04', 'c05', 'c08', 'c10'] + (['c13', 'c14', 'c15'] if ctx['tier'] == 'thorough' else [])
    return run_gen_drivers(ctx, drivers, n, 'c11')


def c09gen(ctx):
    n = 1 if ctx['tier'] == 'quick' else 10
    return run_gen_drivers(ctx, ['units', 'lookup'], n, 'c09g')


PY = {'c06': c06, 'c11': c11, 'c09gen': c09gen}


# --------------------------------------------------------------------------- C12
def surface(t):
    """structured surface form of one definition: everything that will be written, with token kinds"""
    dv = t.get('derive')
    S = {'name': t.get('rust', t['T'].split('.')[-1]), 'attrs': [], 'item': 'struct', 'fields': None, 'generics': None,
         'qargs': None, 'doc': t.get('doc')}
    if dv:
        l = 'AmountT' if dv['l'] == 'Amount' else dv['l'].split('.')[-1]
        r = 'AmountT' if dv['r'] == 'Amount' else dv['r'].split('.')[-1]
        S['qargs'] = {'text': '%s %s %s' % (l, dv['op'], r), 'kind': 'binop', 'op': dv['op'], 'l': 'ident', 'r': 'ident'}
    units = []
    for u in t['units']:
        df = u.get('def')
        isref = bool(df and df.get('ref'))
        args = [('I', u['w']), ('S', json.dumps(u['sym'], ensure_ascii=False))]
        if u.get('pfx'):
            args.append(('I', u['pfx']))
        if not isref and u.get('lit') is not None:
            args.append(('N', u['lit']))
        if u.get('doc') is not None:
            args.append(('S', json.dumps(u['doc'], ensure_ascii=False)))
        units.append({'a': 'ref_unit' if isref else 'unit', 'args': args, 'parens': True})
    order = t.get('attr_order') or list(range(len(units)))
    S['attrs'] = [units[i] for i in order]
    return S


def render_surface(S):
    L = ['#[quantity(%s)]' % S['qargs']['text'] if S['qargs'] else '#[quantity]']
    descr = []
    for ia, a in enumerate(S['attrs']):
        # foreign attributes (documentation, lints) in between the unit attributes: irrelevant to well-formedness
        for line in (S.get('inter') or {}).get(ia, []):
            L.append(line)
        if a['parens']:
            L.append('#[%s(%s)]' % (a['a'], ', '.join(x for _, x in a['args']) if not a.get('raw') else a['raw']))
        else:
            L.append('#[%s]' % a['a'])
        toks = a.get('toks')
        if toks is None:
            toks = []
            for k, (kind, _) in enumerate(a['args']):
                if k:
                    toks.append('C')
                toks.append(kind)
        descr.append({'a': a['a'], 'parens': a['parens'], 'toks': toks})
    if S.get('doc'):
        L.append('/// ' + S['doc'])
    if S['item'] == 'struct':
        L.append('pub struct %s%s %s' % (S['name'], S['generics'] or '', S['fields'] or '{}'))
    elif S['item'] == 'enum':
        L.append('pub enum %s { A, B }' % S['name'])
    elif S['item'] == 'fn':
        L.append('pub fn %s() {}' % S['name'].lower())
    else:
        L.append('pub type %s = u8;' % S['name'])
    q = S['qargs']
    abstract = {'item': S['item'], 'fields': bool(S['fields']), 'generics': bool(S['generics']),
                'qargs': {'kind': q['kind'] if q else 'none', 'op': (q or {}).get('op', '-'), 'l': (q or {}).get('l', '-'), 'r': (q or {}).get('r', '-')},
                'attrs': descr}
    return L, abstract


def c12_defects(rnd, S0, has_ref, is_derived):
    """apply each applicable defect class to a copy of the well-formed surface form"""
    import copy
    out = []

    def case(name, f):
        S = copy.deepcopy(S0)
        if f(S) is not False:
            out.append((name, S))
    units = [i for i, a in enumerate(S0['attrs']) if a['a'] == 'unit']
    refs = [i for i, a in enumerate(S0['attrs']) if a['a'] == 'ref_unit']
    u0 = rnd.choice(units)

    def only_units(S, keep):
        S['attrs'] = [a for a in S['attrs'] if keep(a)]
    case('no_unit', lambda S: only_units(S, lambda a: a['a'] != 'unit'))
    if has_ref:
        def two_ref(S):
            S['attrs'].insert(rnd.randint(0, len(S['attrs'])), {'a': 'ref_unit', 'args': [('I', 'Second_Ref'), ('S', '"r2"')], 'parens': True})
        case('two_ref_units', two_ref)

        for lit in ('1.0', '1', '1000', '1e0', '0.001'):
            def ref_scale(S, lit=lit):
                a = S['attrs'][refs[0]]
                pos = 3 if len(a['args']) > 2 and a['args'][2][0] == 'I' else 2
                a['args'].insert(pos, ('N', lit))
            case('ref_unit_with_scale', ref_scale)

        def unit_noscale(S):
            a = S['attrs'][u0]
            a['args'] = [x for x in a['args'] if x[0] != 'N']
        case('unit_without_scale', unit_noscale)

        def ref_missing_sym(S):
            S['attrs'][refs[0]]['args'] = S['attrs'][refs[0]]['args'][:1]
        case('ref_unit_missing_symbol', ref_missing_sym)

        def ref_too_many(S):
            S['attrs'][refs[0]]['args'] = [('I', 'Rr'), ('S', '"r"'), ('I', 'KILO'), ('S', '"doc"'), ('S', '"x"')]
        case('ref_unit_too_many_args', ref_too_many)

        def two_prefixes(S):
            a = S['attrs'][u0]
            a['args'] = [a['args'][0], a['args'][1], ('I', 'NONE'), ('I', 'MILLI'), ('N', '0.001')]
        case('unit_two_prefixes', two_prefixes)

        def ref_two_prefixes(S):
            a = S['attrs'][refs[0]]
            a['args'] = [a['args'][0], a['args'][1], ('I', 'KILO'), ('I', 'MEGA')]
        case('ref_unit_two_prefixes', ref_two_prefixes)

        for lit in ('10.0', '1000'):
            def wrong_order(S, lit=lit):
                S['attrs'][u0]['args'] = [S['attrs'][u0]['args'][0], S['attrs'][u0]['args'][1], ('N', lit), ('I', 'KILO')]
            case('unit_scale_before_prefix', wrong_order)

        def doc_not_last(S):
            S['attrs'][u0]['args'] = [S['attrs'][u0]['args'][0], S['attrs'][u0]['args'][1], ('S', '"doc"'), ('N', '10.0')]
        case('unit_doc_before_scale', doc_not_last)

        def str_scale(S):
            a = S['attrs'][u0]
            a['args'] = [a['args'][0], a['args'][1], ('S', '"1.0"'), ('S', '"doc"')]
        case('unit_scale_as_string', str_scale)
    else:
        for lit in ('2.5', '2', '1'):
            def scale_noref(S, lit=lit):
                S['attrs'][u0]['args'].insert(2, ('N', lit))
            case('scale_without_ref_unit', scale_noref)

        def pfx_noref(S):
            S['attrs'][u0]['args'].insert(2, ('I', 'KILO'))
        case('prefix_without_ref_unit', pfx_noref)

        def pfx_scale_noref(S):
            S['attrs'][u0]['args'][2:2] = [('I', 'MILLI'), ('N', '0.001')]
        case('prefix_and_scale_without_ref_unit', pfx_scale_noref)

    def missing_sym(S):
        S['attrs'][u0]['args'] = S['attrs'][u0]['args'][:1]
    case('unit_missing_symbol', missing_sym)

    def sym_not_str(S):
        S['attrs'][u0]['args'][1] = ('I', 'sym')
    case('unit_symbol_not_string', sym_not_str)

    def ident_not_ident(S):
        S['attrs'][u0]['args'][0] = ('S', '"Unit"')
    case('unit_ident_is_string', ident_not_ident)

    def too_many(S):
        S['attrs'][u0]['args'] = [('I', 'Uu'), ('S', '"u"'), ('I', 'KILO'), ('N', '1000'), ('S', '"doc"'), ('S', '"extra"')]
    case('unit_too_many_args', too_many)

    def empty_args(S):
        S['attrs'][u0]['args'] = []
    case('unit_empty_args', empty_args)

    def no_parens(S):
        S['attrs'][u0]['parens'] = False
        S['attrs'][u0]['args'] = []
    case('unit_without_argument_list', no_parens)

    def missing_comma(S):
        a = S['attrs'][u0]
        a['raw'] = ' '.join(x for _, x in a['args'][:2]) + ''.join(', ' + x for _, x in a['args'][2:])
        a['toks'] = [a['args'][0][0], a['args'][1][0]]
        for kind, _ in a['args'][2:]:
            a['toks'] += ['C', kind]
    case('unit_missing_comma', missing_comma)

    def fields_named(S):
        S['fields'] = '{ value: f64 }'
    case('struct_with_named_fields', fields_named)

    def fields_tuple(S):
        S['fields'] = '(f64);'
    case('struct_with_tuple_fields', fields_tuple)
    for gname, g in [('type', '<T>'), ('lifetime', "<'a>"), ('const', '<const N: usize>')]:
        def gen(S, g=g):
            S['generics'] = g
        case('struct_with_generic_%s_param' % gname, gen)
    for item in ('enum', 'fn', 'type'):
        def it(S, item=item):
            S['item'] = item
        case('item_is_' + item, it)
    # arguments of #[quantity(..)]
    for nm, text, q in [
        ('qargs_plus', 'Aa + Bb', {'kind': 'binop', 'op': '+', 'l': 'ident', 'r': 'ident'}),
        ('qargs_single_ident', 'Aa', {'kind': 'other', 'op': '-', 'l': '-', 'r': '-'}),
        ('qargs_literal_operand', 'Aa * 2', {'kind': 'binop', 'op': '*', 'l': 'ident', 'r': 'other'}),
        ('qargs_path_operand', 'self::Aa / Bb', {'kind': 'binop', 'op': '/', 'l': 'other', 'r': 'ident'}),
        ('qargs_string', '"Aa * Bb"', {'kind': 'other', 'op': '-', 'l': '-', 'r': '-'}),
        ('qargs_three_operands', 'Aa * Bb * Cc', {'kind': 'binop', 'op': '*', 'l': 'other', 'r': 'ident'}),
        ('qargs_not_an_expression', 'Aa, Bb', {'kind': 'other', 'op': '-', 'l': '-', 'r': '-'}),
    ]:
        def qa(S, text=text, q=q):
            S['qargs'] = dict(q, text=text)
        case(nm, qa)
    # a path (not a plain identifier) as operand, naming REAL quantities that are in scope
    if is_derived and S0['qargs']:
        l, op, r = S0['qargs']['text'].split(' ')
        for nm, text, q in [
            ('qargs_real_path_lhs', 'self::%s %s %s' % (l, op, r), {'kind': 'binop', 'op': op, 'l': 'other', 'r': 'ident'}),
            ('qargs_real_path_rhs', '%s %s crate::%s' % (l, op, r), {'kind': 'binop', 'op': op, 'l': 'ident', 'r': 'other'}),
            ('qargs_real_parenthesised', '(%s) %s %s' % (l, op, r), {'kind': 'binop', 'op': op, 'l': 'other', 'r': 'ident'}),
        ]:
            if l == 'AmountT' and 'lhs' in nm:
                continue
            def qa2(S, text=text, q=q):
                S['qargs'] = dict(q, text=text)
            case(nm, qa2)
    return out


def c12(ctx):
    import gen_decl
    rnd = random.Random(ctx['seed'] * 977 + 12)
    n_bases = 3 if ctx['tier'] == 'quick' else 40
    out = []
    for be in ('f64', 'dec'):
        # build the library once through cargo; every program is then compiled on its own by rustc
        tdir = os.path.join(ctx['work'], 'target_c12_' + be)
        d0 = os.path.join(ctx['rundir'], 'c12_base_' + be)
        cp.write_crate(d0, ctx['repo'], be, 'pub use quantities::prelude::*;\n')
        env = dict(os.environ)
        env.update({'CARGO_NET_OFFLINE': 'true', 'CARGO_TARGET_DIR': tdir})
        p = subprocess.run(['cargo', 'build', '--offline', '--lib'], cwd=d0, env=env, stdout=subprocess.PIPE, stderr=subprocess.STDOUT, text=True)
        if p.returncode != 0:
            raise ctx['ToolError']('library does not build for C12 (%s): %s' % (be, p.stdout[-1500:]))
        deps = os.path.join(tdir, 'debug', 'deps')
        rlibs = sorted([f for f in os.listdir(deps) if f.startswith('libquantities-') and f.endswith('.rlib')], key=lambda f: os.path.getmtime(os.path.join(deps, f)))
        rlib = os.path.join(deps, rlibs[-1])
        progs = []
        for b in range(n_bases):
            reg = gen_decl.gen_registry(ctx['seed'] * 31 + b, n_base=2, n_derived=1, prefix='W')
            qv.normalise(reg)
            types = {t['T']: t for t in reg['types']}
            noref_name = next(t['T'] for t in reg['types'] if t.get('noref') and len(t['units']) > 1)
            for t in reg['types']:
                dv = t.get('derive')
                has_ref = not t.get('noref')
                deps_t = [types[x] for x in ((dv['l'], dv['r']) if dv else ()) if x in types]
                prelude = []
                for dt_ in {x['T']: x for x in deps_t}.values():
                    prelude += [l.strip() for l in qv.render_type(dt_)[0]]
                S0 = surface(t)
                env_ref = {'l_ref': True, 'r_ref': True}
                cases = [('-', S0)] + c12_defects(rnd, S0, has_ref, bool(dv))
                extra = []
                if dv and dv['l'] != 'Amount':
                    # derived definition whose operand / result lacks a reference unit
                    import copy
                    nr = types[noref_name]
                    for nm, side in (('derived_lhs_no_ref_unit', 'l'), ('derived_rhs_no_ref_unit', 'r')):
                        S = copy.deepcopy(S0)
                        other = dv['r'] if side == 'l' else dv['l']
                        lname = noref_name if side == 'l' else dv['l']
                        rname = dv['r'] if side == 'l' else noref_name
                        if other == 'Amount':
                            continue
                        S['qargs'] = {'text': '%s %s %s' % (lname, dv['op'], rname), 'kind': 'binop', 'op': dv['op'], 'l': 'ident', 'r': 'ident'}
                        pre = [l.strip() for l in qv.render_type(nr)[0]] + [l.strip() for l in qv.render_type(types[other])[0]]
                        extra.append((nm, S, pre, {'l_ref': side != 'l', 'r_ref': side != 'r'}))
                    S = copy.deepcopy(S0)
                    S['attrs'] = [{'a': 'unit', 'args': [('I', 'Only_%s' % i), ('S', '"o%d"' % i)], 'parens': True} for i in range(2)]
                    extra.append(('derived_res_no_ref_unit', S, prelude, env_ref))
                for (nm, S) in cases:
                    extra.append((nm, S, prelude, env_ref))
                # every case twice: as it is, and with documentation comments / lint attributes in between the unit
                # attributes (before the first one, between any two, after the last)
                import copy as _copy
                inter_cases = []
                for (nm, S, pre, envd) in extra:
                    S2 = _copy.deepcopy(S)
                    S2['inter'] = {}
                    for ia in range(len(S2['attrs'])):
                        r = rnd.random()
                        if ia > 0 and r < 0.6:
                            S2['inter'][ia] = ['/// a remark placed between the unit attributes (%d)' % ia] if r < 0.4 else ['#[allow(dead_code)]']
                    if len(S2['attrs']) > 1 and not S2['inter']:
                        S2['inter'][1] = ['/// a remark placed between the unit attributes']
                    inter_cases.append((nm, S2, pre, envd))
                for (nm, S, pre, envd) in extra + inter_cases:
                    lines, abstract = render_surface(S)
                    head = ['#![allow(dead_code, unused, non_camel_case_types)]', 'use quantities::prelude::*;'] + pre
                    src = head + lines
                    abstract['derived'] = envd
                    progs.append({'defect': nm, 'decl': abstract, 'src': '\n'.join(src) + '\n', 'def_first': len(head) + 1, 'def_last': len(src), 'T': t['T']})
        pdir = os.path.join(ctx['rundir'], 'c12_progs_' + be)
        os.makedirs(pdir, exist_ok=True)

        def run_one(ip):
            i, pr = ip
            f = os.path.join(pdir, 'p%04d.rs' % i)
            open(f, 'w', encoding='utf-8').write(pr['src'])
            cmd = ['rustc', '--edition', '2021', '--crate-type', 'lib', '--crate-name', 'p%04d' % i, '--emit=metadata', '--error-format=json',
                   '-L', 'dependency=' + deps, '--extern', 'quantities=' + rlib, '-o', os.path.join(pdir, 'p%04d.rmeta' % i), f]
            r = subprocess.run(cmd, stdout=subprocess.PIPE, stderr=subprocess.PIPE, text=True, errors='replace', timeout=120)
            err_lines, codes = [], []
            for line in r.stderr.splitlines():
                try:
                    m = json.loads(line)
                except Exception:
                    continue
                if m.get('level') != 'error':
                    continue
                for s_ in m.get('spans', []):
                    if s_.get('is_primary'):
                        err_lines.append(s_['line_start'])
                    e = s_.get('expansion')
                    while e:
                        sp = e.get('span', {})
                        if sp.get('file_name', '').endswith('.rs') and 'p%04d' % i in sp.get('file_name', ''):
                            err_lines.append(sp['line_start'])
                        e = sp.get('expansion')
                codes.append((m.get('code') or {}).get('code') or '-')
            ev = {'kind': 'decl', 'defect': pr['defect'], 'decl': pr['decl'], 'T': pr['T'], 'verdict': 'ok' if r.returncode == 0 else 'err',
                  'err_lines': sorted(set(err_lines)), 'codes': sorted(set(codes)), 'def_first': pr['def_first'], 'def_last': pr['def_last'],
                  'program': pr['src']}
            return ev
        from concurrent.futures import ThreadPoolExecutor
        with ThreadPoolExecutor(max_workers=16) as ex:
            evs = list(ex.map(run_one, enumerate(progs)))
        tp = os.path.join(ctx['rundir'], 'c12_%s.ndjson' % be)
        write_trace(tp, {'ev': 'Header', 'be': be, 'registry': 'gen', 'drv': 'c12', 'seed': ctx['seed'], 'tier': ctx['tier']}, evs, 'Compile')
        dp = os.path.join(ctx['rundir'], 'decl_empty.json')
        json.dump({'order': [], 'types': {}}, open(dp, 'w'))
        out.append(('c12_' + be, tp, empty_obs(ctx, be), dp))
        shutil.rmtree(pdir, ignore_errors=True)
    return out


PY['c12'] = c12


# --------------------------------------------------------------------------- C19
FEATS = ['mass', 'length', 'duration', 'area', 'volume', 'speed', 'acceleration', 'force', 'energy', 'power',
         'frequency', 'datavolume', 'datathroughput', 'temperature']


def parse_cargo_features(repo):
    import re
    txt = open(os.path.join(repo, 'Cargo.toml'), encoding='utf-8').read()
    m = re.search(r'^\[features\]\s*$(.*?)(?=^\[)', txt, re.M | re.S)
    body = m.group(1) if m else ''
    feats = {}
    for fm in re.finditer(r'^([A-Za-z0-9_-]+)\s*=\s*\[(.*?)\]', body, re.M | re.S):
        feats[fm.group(1)] = re.findall(r'"([^"]+)"', fm.group(2))
    return feats


def parse_module_uses(repo):
    """which other quantity modules a module's source refers to (use crate::x, crate::x::, #[quantity(A op B)] operands)"""
    import re
    decl = json.load(open(os.path.join(os.path.dirname(os.path.dirname(os.path.abspath(__file__))), 'spec', 'catalogue.json'), encoding='utf-8'))
    uses = {}
    for f in FEATS:
        p = os.path.join(repo, 'src', f + '.rs')
        if not os.path.exists(p):
            uses[f] = ['<missing module>']
            continue
        src = open(p, encoding='utf-8').read()
        # cut the unit-test module: its imports are not part of the library configuration
        cut = src.find('#[cfg(test)]')
        lib = src if cut < 0 else src[:cut]
        mods = set(re.findall(r'crate::\{?\s*([a-z_]+)::', lib)) | set(re.findall(r'crate::([a-z_]+)::', lib))
        for g in re.findall(r'use\s+crate::\{(.*?)\};', lib, re.S):
            mods |= set(re.findall(r'([a-z_]+)::', g))
        uses[f] = sorted(m for m in mods if m in FEATS and m != f)
    return uses


def c19(ctx):
    repo = ctx['repo']
    declared = qv.load_declared(os.path.join(ctx['spec'], 'catalogue.json'))
    dt = {t['T']: t for t in declared['types']}
    byfeat = {t['feature']: t for t in declared['types'] if t.get('feature')}
    evs = []
    feats = parse_cargo_features(repo)
    uses = parse_module_uses(repo)
    evs.append({'kind': 'static', 'requires': [{'f': f, 'deps': deps} for f, deps in sorted(feats.items())],
                'uses': [{'f': f, 'deps': d} for f, d in sorted(uses.items())]})

    def probe_src(fs, be, std, serde):
        L = ['#![allow(unused, dead_code)]']
        if not std:
            L.append('#![no_std]')
        L.append('use quantities::prelude::*;')
        for f in fs:
            t = byfeat[f]
            path = t['path']
            name = t['T']
            ru = next(u for u in t['units'] if (u.get('def') or {}).get('ref')) if not t.get('noref') else t['units'][0]
            L.append('pub fn use_%s(a: AmountT) -> %s::%s { a * %s::%s }' % (f, path, name, path, qv.const_of(ru['w'])))
            # "exposes that quantity": every published unit, as enum variant and as constant
            L.append('pub fn units_%s() -> [%s::%sUnit; %d] { [%s] }' % (f, path, name, len(t['units']), ', '.join('%s::%s' % (path, qv.const_of(u['w'])) for u in t['units'])))
            dv = t.get('derive')
            if dv:
                lt = 'AmountT' if dv['l'] == 'Amount' else '%s::%s' % (dt[dv['l']]['path'], dv['l'])
                rt = 'AmountT' if dv['r'] == 'Amount' else '%s::%s' % (dt[dv['r']]['path'], dv['r'])
                L.append('pub fn derive_%s(x: %s, y: %s) -> %s::%s { x %s y }' % (f, lt, rt, path, name, dv['op']))
            if serde:
                L.append('pub fn ser_%s<S: serde::Serializer>(q: %s::%s, s: S) -> Result<S::Ok, S::Error> { serde::Serialize::serialize(&q, s) }' % (f, path, name))
        return '\n'.join(L) + '\n'

    def config_crate(d, fs, be, std, serde):
        os.makedirs(os.path.join(d, 'src'), exist_ok=True)
        fl = list(fs) + (['std'] if std else []) + (['fpdec'] if be == 'dec' else []) + (['serde'] if serde else [])
        toml = ['[package]', 'name = "cfgprobe"', 'version = "0.0.0"', 'edition = "2021"', '', '[dependencies]',
                'quantities = { path = "%s", default-features = false, features = [%s] }' % (repo, ', '.join('"%s"' % f for f in fl))]
        if serde:
            toml.append('serde = { version = "1", default-features = false }')
        toml += ['', '[workspace]', '', '[profile.dev]', 'debug = false', 'incremental = false']
        open(os.path.join(d, 'Cargo.toml'), 'w').write('\n'.join(toml) + '\n')
        shutil.copy(cp.lockfile(repo), os.path.join(d, 'Cargo.lock'))
        open(os.path.join(d, 'src', 'lib.rs'), 'w').write(probe_src(fs, be, std, serde))

    choices = [[f] for f in FEATS] + [list(FEATS), []]
    combos = [(std, be, serde) for std in (True, False) for be in ('f64', 'dec') for serde in (False, True)]
    if ctx['tier'] == 'quick':
        # the 16 choices in the default configuration; all / none / two rotating singles in the other seven
        rnd = random.Random(ctx['seed'])
        plan = [(c, True, 'f64', False) for c in choices]
        for (std, be, serde) in combos[1:]:
            extra = rnd.sample(FEATS, 2)
            plan += [(list(FEATS), std, be, serde), ([], std, be, serde)] + [([f], std, be, serde) for f in extra]
    else:
        plan = [(c, std, be, serde) for c in choices for (std, be, serde) in combos]
    tdir_base = os.path.join(ctx['work'], 'target_c19')

    def run_cfg(ip):
        i, (fs, std, be, serde) = ip
        d = os.path.join(ctx['rundir'], 'cfg_%03d' % i)
        config_crate(d, fs, be, std, serde)
        # four target directories so that four configurations can be checked concurrently
        rc, diags, dep_failed, err = cp.cargo_check(d, '%s_%d' % (tdir_base, i % 4))
        msg = ''
        if rc != 0:
            msg = (dep_failed[1] if dep_failed else (diags[0]['msg'] if diags else err))[:300]
        shutil.rmtree(d, ignore_errors=True)
        return {'kind': 'build', 'features': fs, 'std': std, 'be': be, 'serde': serde, 'verdict': 'ok' if rc == 0 else 'err', 'msg': msg}
    from concurrent.futures import ThreadPoolExecutor
    # configurations sharing a target directory must not run concurrently: one worker per directory
    lanes = [[] for _ in range(4)]
    for ip in enumerate(plan):
        lanes[ip[0] % 4].append(ip)
    with ThreadPoolExecutor(max_workers=4) as ex:
        for res in ex.map(lambda lane: [run_cfg(ip) for ip in lane], lanes):
            evs.extend(res)
    # generated operation corpus (every quantity type enabled by the configuration: registry, conversions, comparisons,
    # arithmetic, formatting, fitting, its derivation operator): a configuration and the full one must agree on
    # everything the smaller one offers
    def closure(fs):
        todo, seen = list(fs), set()
        while todo:
            f = todo.pop()
            if f in seen:
                continue
            seen.add(f)
            todo += [d for d in feats.get(f, []) if d in FEATS]
        return seen

    def gen_corpus(fs):
        on = closure(fs)
        base = open(os.path.join(ctx['root'], 'tools', 'corpus_main.rs'), encoding='utf-8').read()
        head, _, _ = base.partition('fn main() {')
        head = head.replace('use quantities::{duration::*, length::*, mass::*, temperature::*, Converter};', 'use quantities::Converter;')
        body = []
        for f in FEATS:
            if f not in on:
                continue
            t = byfeat[f]
            Q = '%s::%s' % (t['path'], t['T'])
            if t.get('noref'):
                body.append('    temperature_section();' if t['T'] == 'Temperature' else '')
                continue
            body.append('    corpus!(%s, %sUnit, "%s");' % (Q, Q, t['T']))
            dv = t.get('derive')
            if dv:
                rq = '%s::%s' % (dt[dv['r']]['path'], dv['r'])
                if dv['l'] == 'Amount':
                    body.append('    derived_amnt!(%s, %sUnit, "%s");' % (rq, rq, t['T']))
                else:
                    lq = '%s::%s' % (dt[dv['l']]['path'], dv['l'])
                    body.append('    derived!(%s, %sUnit, %s, %sUnit, %s, "%s");' % (lq, lq, rq, rq, dv['op'], t['T']))
        extra = '''
macro_rules! derived {
    ($LQ:ty, $LU:ty, $RQ:ty, $RU:ty, $op:tt, $name:expr) => {{
        let lus: Vec<$LU> = <$LU as Unit>::iter().collect();
        let rus: Vec<$RU> = <$RU as Unit>::iter().collect();
        for (i, u) in lus.iter().enumerate() {
            for (j, v) in rus.iter().enumerate() {
                for (a, b) in [(Amnt!(1.0), Amnt!(1.0)), (Amnt!(2.5), Amnt!(0.5)), (Amnt!(1234.5), Amnt!(-8.0))] {
                    let x: $LQ = a * *u;
                    let y: $RQ = b * *v;
                    println!("{} derived {} {} {} {} -> {}", $name, i, j, show(a), show(b), guard(move || { let r = x $op y; format!("{} {:?}", show(r.amount()), r.unit()) }));
                }
            }
        }
    }};
}
macro_rules! derived_amnt {
    ($RQ:ty, $RU:ty, $name:expr) => {{
        let rus: Vec<$RU> = <$RU as Unit>::iter().collect();
        for (j, v) in rus.iter().enumerate() {
            for (a, b) in [(Amnt!(1.0), Amnt!(1.0)), (Amnt!(2.5), Amnt!(0.5)), (Amnt!(1234.5), Amnt!(-8.0))] {
                let y: $RQ = b * *v;
                println!("{} derived {} {} {} -> {}", $name, j, show(a), show(b), guard(move || { let r = a / y; format!("{} {:?}", show(r.amount()), r.unit()) }));
            }
        }
    }};
}
'''
        temp = '''
fn temperature_section() {
    use quantities::temperature::*;
    let tus: Vec<TemperatureUnit> = TemperatureUnit::iter().collect();
    let temps: Vec<AmountT> = vec![Amnt!(0.0), Amnt!(-17.3), Amnt!(21.5), Amnt!(293.15), Amnt!(-40.0), Amnt!(100.0), Amnt!(36.6), Amnt!(1234.5678), Amnt!(0.1), Amnt!(-273.15), Amnt!(451.0), Amnt!(98.6), Amnt!(-0.7), Amnt!(77.7), Amnt!(5778.0)];
    for (i, u) in tus.iter().enumerate() {
        println!("Temperature unit {} {:?} {} {}", i, u, u.name(), u.symbol());
        for (j, v) in tus.iter().enumerate() {
            for a in &temps {
                let t: Temperature = *a * *u;
                match TEMPERATURE_CONVERTER.convert(&t, *v) {
                    Some(r) => println!("Temperature conv {} {} {} -> {} {:?}", i, j, show(*a), show(r.amount()), r.unit()),
                    None => println!("Temperature conv {} {} {} -> none", i, j, show(*a)),
                }
            }
        }
    }
}
''' if 'temperature' in on else ''
        return head + extra + temp + 'fn main() {\n    std::panic::set_hook(Box::new(|_| {}));\n' + '\n'.join(b for b in body if b) + '\n}\n'

    def sections(out):
        sec = {}
        for line in out.splitlines():
            sec.setdefault(line.split(' ', 1)[0], []).append(line)
        return sec

    rnd_c = random.Random(ctx['seed'] * 131 + 19)
    if ctx['tier'] == 'quick':
        smalls = [['mass', 'length', 'duration', 'temperature']] + [[f] for f in rnd_c.sample([f for f in FEATS if feats.get(f)], 3)]
    else:
        smalls = [['mass', 'length', 'duration', 'temperature']] + [[f] for f in FEATS]
    for be in ('f64', 'dec'):
        outs = []
        cfgs = [('full', list(FEATS) + ['std', 'serde'])] + [('only_' + '_'.join(fs) if len(fs) == 1 else 'minimal', fs) for fs in smalls]
        for label, fs in cfgs:
            d = os.path.join(ctx['rundir'], 'corpus_%s_%s' % (label, be))
            os.makedirs(os.path.join(d, 'src'), exist_ok=True)
            fl = fs + (['fpdec'] if be == 'dec' else [])   # minimal: no std, four quantities; full: std, serde and all fourteen
            toml = ['[package]', 'name = "corpus"', 'version = "0.0.0"', 'edition = "2021"', '', '[dependencies]',
                    'quantities = { path = "%s", default-features = false, features = [%s] }' % (repo, ', '.join('"%s"' % f for f in fl)),
                    '', '[workspace]', '', '[profile.dev]', 'debug = false', 'incremental = false']
            open(os.path.join(d, 'Cargo.toml'), 'w').write('\n'.join(toml) + '\n')
            shutil.copy(cp.lockfile(repo), os.path.join(d, 'Cargo.lock'))
            open(os.path.join(d, 'src', 'main.rs'), 'w', encoding='utf-8').write(gen_corpus([f for f in fs if f in FEATS]))
            env = dict(os.environ)
            env.update({'CARGO_NET_OFFLINE': 'true', 'CARGO_TARGET_DIR': tdir_base + '_corpus'})
            p = subprocess.run(['cargo', 'run', '--offline', '-q'], cwd=d, env=env, stdout=subprocess.PIPE, stderr=subprocess.PIPE, text=True, errors='replace', timeout=900)
            if p.returncode != 0:
                evs.append({'kind': 'build', 'features': fs, 'std': True, 'be': be, 'serde': False, 'verdict': 'err', 'msg': 'corpus program: ' + p.stderr[-300:]})
                outs.append(None)
            else:
                outs.append(p.stdout)
            shutil.rmtree(d, ignore_errors=True)
        if outs[0] is not None:
            full = sections(outs[0])
            for (label, fs), o in list(zip(cfgs, outs))[1:]:
                if o is None:
                    continue
                sec = sections(o)
                diff = ''
                for T, lines in sorted(sec.items()):
                    if full.get(T) != lines:
                        fl_ = full.get(T, [])
                        diff = next((a + '  <>  ' + b for a, b in zip(lines, fl_) if a != b), '%s: %d lines <> %d lines' % (T, len(lines), len(fl_)))
                        break
                evs.append({'kind': 'corpus', 'be': be, 'config': label, 'same': diff == '', 'n': len(o.splitlines()), 'first_difference': diff[:300]})
    tp = os.path.join(ctx['rundir'], 'c19.ndjson')
    write_trace(tp, {'ev': 'Header', 'be': 'f64', 'registry': 'cat', 'drv': 'c19', 'seed': ctx['seed'], 'tier': ctx['tier']}, evs, 'Config')
    return [('c19', tp, empty_obs(ctx, 'f64'), ctx['declared_for']('cat'))]


PY['c19'] = c19
