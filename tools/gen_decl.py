"""Seeded generator of WELL-FORMED quantity declarations (declared registries in the schema of
spec/models/*.json), and of the Rust text of a single definition with full control over its surface form
(attribute order, literal forms, docs), so that defect classes can be applied for C12.
Input generation only."""
import random
from fractions import Fraction

SI = ['QUECTO', 'RONTO', 'YOCTO', 'ZEPTO', 'ATTO', 'FEMTO', 'PICO', 'NANO', 'MICRO', 'MILLI', 'CENTI', 'DECI', 'NONE',
      'DECA', 'HECTO', 'KILO', 'MEGA', 'GIGA', 'TERA', 'PETA', 'EXA', 'ZETTA', 'YOTTA', 'RONNA', 'QUETTA']
SYLL = ['ba', 'ro', 'mi', 'ta', 'ku', 'le', 'zo', 'fi', 'ne', 'gu', 'pa', 'ri', 'so', 'te', 'vu', 'wa', 'xi', 'yo', 'ze', 'ch']
SYMCH = list('abcdefghijklmnopqrstuvwxyzABCDEFGHIJKLMNOPQRSTUVWXYZ') + ['µ', '°', '²', '³', '/', 'Ω', '☉', 'ß', 'é']

# (literal text, exact value) - several spellings of the same value on purpose
SCALES = [
    ('1000', Fraction(1000)), ('1000.', Fraction(1000)), ('1000.0', Fraction(1000)), ('1e3', Fraction(1000)),
    ('0.001', Fraction(1, 1000)), ('1e-3', Fraction(1, 1000)), ('0.0010', Fraction(1, 1000)),
    ('2', Fraction(2)), ('2.0', Fraction(2)), ('0.5', Fraction(1, 2)), ('5e-1', Fraction(1, 2)),
    ('12', Fraction(12)), ('60', Fraction(60)), ('3600', Fraction(3600)), ('0.25', Fraction(1, 4)),
    ('0.0254', Fraction(254, 10000)), ('0.3048', Fraction(3048, 10000)), ('1609.344', Fraction(1609344, 1000)),
    ('1e6', Fraction(10**6)), ('1000000', Fraction(10**6)), ('1e-6', Fraction(1, 10**6)), ('0.000001', Fraction(1, 10**6)),
    ('0.125', Fraction(1, 8)), ('1024', Fraction(1024)), ('1e9', Fraction(10**9)), ('0.4', Fraction(2, 5)), ('7.5', Fraction(15, 2)),
    ('1e8', Fraction(10**8)), ('1e10', Fraction(10**10)), ('1000000000000.', Fraction(10**12)), ('1e12', Fraction(10**12)), ('1e15', Fraction(10**15)),
    ('1e-13', Fraction(1, 10**13)), ('1e-15', Fraction(1, 10**15)), ('0.00000000000001', Fraction(1, 10**14)),
    ('0.333333333333333333', Fraction(333333333333333333, 10**18)), ('1.000001000000000001', Fraction(10**18 + 10**12 + 1, 10**18)),
    ('2.718281828459045235', Fraction(2718281828459045235, 10**18)), ('1234.000000000000001', Fraction(1234 * 10**15 + 1, 10**15)),
    ('1', Fraction(1)), ('1.0', Fraction(1)), ('100', Fraction(100)), ('1e2', Fraction(100)), ('0.01', Fraction(1, 100)),
]


def word(rnd, cap=True):
    w = ''.join(rnd.choice(SYLL) for _ in range(rnd.randint(1, 3)))
    return w.capitalize() if cap else w


def ident(rnd, used, multiword=False):
    """alphabetic words joined by '_' or camel-cased (the sub-language on which the identifier mapping is unambiguous);
    multiword: at least two words joined by '_' (name, variant and constant all differ from the identifier)"""
    for _ in range(100):
        n = rnd.randint(2, 3) if multiword else rnd.randint(1, 3)
        style = 'snake' if multiword else rnd.choice(['snake', 'camel', 'snake'])
        ws = [word(rnd) for _ in range(n)]
        if style == 'snake':
            # words after the first may be lower case (as in Meter_per_Second)
            ws = [ws[0]] + [w if rnd.random() < 0.7 else w.lower() for w in ws[1:]]
            s = '_'.join(ws)
        else:
            s = ''.join(ws)
        key = s.replace('_', '').lower()
        if key not in used and len(key) > 1:
            used.add(key)
            return s
    raise RuntimeError('ident')


def symbol(rnd, used, allow_dup=False):
    # now and then two units of a type share a symbol (look-ups must return the first in iteration order)
    if allow_dup and used and rnd.random() < 0.12:
        return rnd.choice(sorted(used))
    for _ in range(100):
        s = ''.join(rnd.choice(SYMCH) for _ in range(rnd.randint(1, 4)))
        if s not in used:
            used.add(s)
            return s
    raise RuntimeError('symbol')


def gen_type(rnd, name, used_ids, kind, derive=None, n_units=None, allow_ties=True):
    """kind: 'ref' | 'noref' | 'single'"""
    syms = set()
    n = n_units or (1 if kind == 'single' else rnd.randint(2, 7))
    units = []
    if kind == 'ref':
        has_pfx = rnd.random() < 0.5
        ru = {'w': ident(rnd, used_ids), 'sym': symbol(rnd, syms), 'pfx': rnd.choice(SI) if has_pfx else None, 'def': {'ref': True}}
        if rnd.random() < 0.4:
            ru['doc'] = 'Reference unit of ' + name
        units.append(ru)
        pool = SCALES[:]
        rnd.shuffle(pool)
        chosen = []
        vals = set()
        for lit, val in pool:
            if len(chosen) >= n - 1:
                break
            if val in vals and not (allow_ties and rnd.random() < 0.5):
                continue
            vals.add(val)
            chosen.append((lit, val))
        while len(chosen) < n - 1:      # more units than distinct spellings: repeat scales (more ties)
            chosen.append(rnd.choice(SCALES))
        for lit, val in chosen:
            u = {'w': ident(rnd, used_ids), 'sym': symbol(rnd, syms, True), 'pfx': rnd.choice(SI) if rnd.random() < 0.4 else None,
                 'lit': lit, 'def': {'f': '%d/%d' % (val.numerator, val.denominator), 'of': ru['w']}}
            if rnd.random() < 0.3:
                u['doc'] = '%s·%s' % (lit, ru['sym'])
            units.append(u)
    else:
        # the only unit of a single-unit type always has a multi-word identifier (its code path is a separate one)
        names = [ident(rnd, used_ids, multiword=(kind == 'single')) for _ in range(n)]
        if n >= 2:
            # identifiers that share a prefix, once continued with '_' and once in camel case: their NAMES
            # ("Pre Zed" < "PreAlpha", space sorts first) and their variant identifiers ("PreAlpha" < "PreZed")
            # sort differently; also an identifier starting with a lower-case word
            pre = word(rnd)
            a, b = pre + '_' + 'Z' + word(rnd, cap=False), pre + 'A' + word(rnd, cap=False)
            if all(x.replace('_', '').lower() not in used_ids for x in (a, b)):
                used_ids.update(x.replace('_', '').lower() for x in (a, b))
                names[0], names[1] = a, b
            if n >= 3:
                lw = word(rnd, cap=False) + word(rnd)
                if lw.lower() not in used_ids:
                    used_ids.add(lw.lower())
                    names[2] = lw
        for w_ in names:
            u = {'w': w_, 'sym': symbol(rnd, syms, True), 'pfx': None, 'def': None}
            if rnd.random() < 0.3:
                u['doc'] = 'unit of ' + name
            units.append(u)
    t = {'T': name, 'derive': derive, 'units': units}
    if kind != 'ref':
        t['noref'] = True
    # attribute order: a permutation of the unit attributes (reference unit anywhere)
    order = list(range(len(units)))
    rnd.shuffle(order)
    t['attr_order'] = order
    if rnd.random() < 0.6:
        t['doc'] = 'Quantity ' + name
        if rnd.random() < 0.6:
            t['doc_pos'] = rnd.randint(0, len(units))
    return t


def gen_registry(seed, n_base=3, n_derived=2, prefix='G', big=False):
    rnd = random.Random(seed)
    used = set()
    types = []
    names = []
    for i in range(n_base):
        nm = '%s%dB%d' % (prefix, seed % 100000, i)
        types.append(gen_type(rnd, nm, used, 'ref'))
        names.append(nm)
    # at least one non-reference unit that carries the (empty) SI prefix NONE explicitly
    cands = [u for t in types for u in t['units'] if not (u.get('def') or {}).get('ref')]
    if cands:
        rnd.choice(cands)['pfx'] = 'NONE'
        if len(cands) > 2:
            rnd.choice(cands)['pfx'] = 'NONE'
    if big:
        # one type with more than 20 units and many tied scales (sorting algorithms behave differently beyond
        # small sizes; ties must keep attribute order)
        nm = '%s%dL' % (prefix, seed % 100000)
        t = gen_type(rnd, nm, used, 'ref', n_units=rnd.randint(23, 30), allow_ties=True)
        types.append(t)
    nr = '%s%dN' % (prefix, seed % 100000)
    types.append(gen_type(rnd, nr, used, 'noref', n_units=rnd.randint(2, 5)))
    sg = '%s%dS' % (prefix, seed % 100000)
    types.append(gen_type(rnd, sg, used, 'single'))
    derived_pairs = set()
    for j in range(n_derived):
        for attempt in range(20):
            op = rnd.choice(['*', '/'])
            l = rnd.choice(names[:n_base] + (['Amount'] if op == '/' else []))
            r = rnd.choice(names[:n_base])
            if n_derived >= 2 and j == 0 and attempt == 0:
                # forced: the first derived type is a SQUARE (X * X has its own code path in the macro)
                op, l, r = '*', names[0], names[0]
            elif n_derived >= 2 and j == 1 and attempt == 0:
                # forced: the second one is a quotient of two different types (all four operator instances distinct)
                op, l, r = '/', names[0], names[1 % n_base]
            if l == 'Amount' and op == '*':
                continue
            # avoid incoherent environments (two definitions generating the same impl)
            keys = {(op, l, r)} | ({('*', r, l)} if op == '*' else set())
            if keys & derived_pairs or (op == '/' and l == r):
                continue
            derived_pairs |= keys
            nm = '%s%dD%d' % (prefix, seed % 100000, j)
            # inverse forms use the new type, which is fresh, so no further collisions
            types.append(gen_type(rnd, nm, used, 'ref', derive={'op': op, 'l': l, 'r': r}))
            break
    # features the checks rely on are FORCED, not left to the draw (and without consuming random numbers):
    # two units sharing a symbol (look-ups return the first in iteration order; unit tests by symbol are wrong),
    # two non-reference units with the same scale written identically (ties keep attribute order)
    def nonref(t):
        return [u for u in t['units'] if not (u.get('def') or {}).get('ref')]
    t0 = nonref(types[0])
    if len(t0) >= 2:
        t0[-1]['sym'] = t0[0]['sym']
    if n_base >= 2:
        t1 = nonref(types[1])
        if len(t1) >= 2:
            t1[-1]['lit'] = t1[0]['lit']
            t1[-1]['def'] = dict(t1[0]['def'])
    nrt = next(t for t in types if t['T'] == nr)
    if len(nrt['units']) >= 3:
        nrt['units'][2]['sym'] = nrt['units'][0]['sym']
    rate_pairs = [[names[0], names[1 % n_base]], [names[0], sg], [nr, names[0]]]
    return {'_comment': 'generated, seed %d' % seed, 'types': types, 'rate_pairs': rate_pairs,
            'rate_pairs_lite': [[names[0], 'Amount']], 'tables': [{'T': nr}]}


def permuted(reg, seed):
    """the same declarations with the unit attributes in another order (C11)"""
    rnd = random.Random(seed * 7919 + 1)
    import copy
    r2 = copy.deepcopy(reg)
    for t in r2['types']:
        o = list(range(len(t['units'])))
        rnd.shuffle(o)
        t['attr_order'] = o
    return r2
