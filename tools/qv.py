"""Shared plumbing for the orchestrator and the generators. NO oracle lives here: this module only
converts representations (decimal strings -> exact numbers as limb arrays for TLC, identifiers -> the
names documented for the generated items so that the harness can *mention* them)."""
import json, os, re
from fractions import Fraction

BASE = 10000


def limbs(n):
    out = []
    while n > 0:
        out.append(n % BASE)
        n //= BASE
    return out


def xnum(neg, m, p=0, q=0):
    return {"k": "fin", "neg": bool(neg), "m": limbs(m), "p": p, "q": q}


def dec_to_x(s):
    """'2.54', '1e-9', '-3', '1000.' -> exact number m*10^q"""
    s = s.strip()
    neg = s.startswith('-')
    if s[0] in '+-':
        s = s[1:]
    exp = 0
    if 'e' in s or 'E' in s:
        s, e = re.split('[eE]', s)
        exp = int(e)
    if '.' in s:
        i, f = s.split('.')
    else:
        i, f = s, ''
    digits = (i + f).lstrip('0') or '0'
    m = int(digits)
    q = exp - len(f)
    while m and m % 10 == 0:
        m //= 10
        q += 1
    if m == 0:
        q = 0
    return xnum(neg, m, 0, q)


def rat_to_nd(s, pi=None):
    """'5/18', '2.54', '648000/pi' -> (numerator X, denominator X) both exact m*10^q numbers"""
    if '/' in s:
        a, b = s.split('/')
    else:
        a, b = s, '1'
    a = pi if a == 'pi' else a
    b = pi if b == 'pi' else b
    return dec_to_x(a), dec_to_x(b)


def rat_to_fraction(s, pi=None):
    def one(t):
        t = pi if t == 'pi' else t
        return Fraction(t)
    if '/' in s:
        a, b = s.split('/')
        return one(a) / one(b)
    return one(s)


def cps(s):
    return [ord(c) for c in s]


def words_of(ident):
    """split a declared identifier into words: at '_' and at lower->upper boundaries"""
    ws = []
    for part in ident.split('_'):
        if not part:
            continue
        ws += re.findall(r'[A-Z]+(?![a-z])|[A-Z]?[a-z]+|[0-9]+', part) or [part]
    return ws


def variant_of(ident):
    return ''.join(w[:1].upper() + w[1:].lower() for w in words_of(ident))


def const_of(ident):
    return '_'.join(w.upper() for w in words_of(ident))


def name_of(ident):
    return ident.replace('_', ' ')


def normalise(d):
    """units: reference unit first, then the others in ATTRIBUTE order (the order in which the macro sees them);
    attr_order: for each attribute position the index of its unit in that list."""
    for t in d['types']:
        U = t['units']
        O = t.get('attr_order') or list(range(len(U)))
        isref = lambda u: bool((u.get('def') or {}).get('ref'))
        N = [u for u in U if isref(u)] + [U[i] for i in O if not isref(U[i])]
        t['attr_order'] = [next(k for k, x in enumerate(N) if x is U[i]) for i in O]
        t['units'] = N
    return d


def apply_source_order(d, repo):
    """The order of the unit attributes is part of the DECLARATION (it breaks ties between equal scales), and the
    declaration is the repository's source text: for predefined quantities take the attribute order from there
    (catalogue.json records symbols, prefixes and published definitions, not the layout of the source file)."""
    import re
    for t in d['types']:
        crate = t.get('crate')
        if crate == 'quantities':
            f = os.path.join(repo, 'src', t['path'].split('::')[-1] + '.rs')
        elif crate == 'astro':
            f = os.path.join(repo, 'astronimical_quantities', 'src', 'lib.rs')
        else:
            continue
        try:
            src = open(f, encoding='utf-8').read()
        except OSError:
            continue
        name = t.get('rust', t['T'].split('.')[-1])
        m = re.search(r'\bstruct\s+%s\b' % re.escape(name), src)
        if not m:
            continue
        q = src.rfind('#[quantity', 0, m.start())
        if q < 0:
            continue
        block = src[q:m.start()]
        pos = {}
        for k, mm in enumerate(re.finditer(r'#\[\s*(?:ref_unit|unit)\s*\(\s*(\w+)', block)):
            pos.setdefault(mm.group(1), k)
        isref = lambda u: bool((u.get('def') or {}).get('ref'))
        U = t['units']
        refs = [u for u in U if isref(u)]
        others = [u for u in U if not isref(u)]
        others = sorted(others, key=lambda u: (0, pos[u['w']]) if u['w'] in pos else (1, others.index(u)))
        t['units'] = refs + others
        t['attr_order'] = list(range(len(t['units'])))
    return d


def load_declared(path):
    d = json.load(open(path, encoding='utf-8'))
    return normalise(d)


def render_type(t, indent='    '):
    """Rust text of one #[quantity] definition. Returns (lines, attr_descr) where attr_descr lists, per attribute
    in source order, its kind and token kinds (I ident, S string, N number, C comma)."""
    rname = t.get('rust', t['T'].split('.')[-1])
    L = []
    dv = t.get('derive')
    if dv:
        l = 'AmountT' if dv['l'] == 'Amount' else dv['l'].split('.')[-1]
        r = 'AmountT' if dv['r'] == 'Amount' else dv['r'].split('.')[-1]
        L.append(indent + "#[quantity(%s %s %s)]" % (l, dv['op'], r))
    else:
        L.append(indent + "#[quantity]")
    attrs = []
    for u in t['units']:
        df = u.get('def')
        args = [('I', u['w']), ('S', json.dumps(u['sym'], ensure_ascii=False))]
        if u.get('pfx'):
            args.append(('I', u['pfx']))
        isref = bool(df and df.get('ref'))
        if not isref and u.get('lit') is not None:
            args.append(('N', u['lit']))
        if u.get('doc') is not None:
            args.append(('S', json.dumps(u['doc'], ensure_ascii=False)))
        name = 'ref_unit' if isref else 'unit'
        toks = []
        for k, (kind, _) in enumerate(args):
            if k:
                toks.append('C')
            toks.append(kind)
        attrs.append({'a': name, 'toks': toks, 'text': indent + "#[%s(%s)]" % (name, ', '.join(a for _, a in args))})
    order = t.get('attr_order') or list(range(len(attrs)))
    descr = []
    body = []
    for i in order:
        body.append(attrs[i]['text'])
        descr.append({'a': attrs[i]['a'], 'toks': attrs[i]['toks']})
    if t.get('doc'):
        # the documentation comment may stand anywhere among the unit attributes (default: after them)
        pos = t.get('doc_pos')
        pos = len(body) if pos is None else max(0, min(len(body), pos))
        body.insert(pos, indent + "/// " + t['doc'])
    L.extend(body)
    L.append(indent + "pub struct %s {}" % rname)
    return L, descr


def tlc_declared(d):
    """Render a declared registry (catalogue.json or a model/generated registry) into the JSON that the
    TLA+ specification reads: numbers as exact limb records, text additionally as code points.
    Purely representational."""
    pi = d.get('pi')
    byname = {t['T']: {variant_of(u['w']): u for u in t['units']} for t in d['types']}

    def resolve(T, uid):
        u = byname[T][uid]
        df = u.get('def')
        if df is None:
            return None
        if df.get('ref'):
            return Fraction(1)
        if 'of' in df:
            return rat_to_fraction(df['f'], pi) * resolve(T, variant_of(df['of']))
        r = rat_to_fraction(df['f'], pi)
        for s_ in df['num']:
            tt, uu = s_.rsplit('.', 1)
            r *= resolve(tt, variant_of(uu))
        for s_ in df['den']:
            tt, uu = s_.rsplit('.', 1)
            r /= resolve(tt, variant_of(uu))
        return r

    def is_term(fr):
        if fr is None:
            return False
        q = fr.denominator
        for p_ in (2, 5):
            while q % p_ == 0:
                q //= p_
        return q == 1
    def frac_to_x(fr):
        """terminating fraction -> exact number m*10^q (purely representational)"""
        n, q, e = fr.numerator, fr.denominator, 0
        while q != 1:
            n, e = n * 10, e - 1
            g = __import__('math').gcd(n, q)
            n, q = n // g, q // g
            if e < -400:
                return {"k": "none"}
        neg = n < 0
        n = abs(n)
        while n and n % 10 == 0:
            n //= 10
            e += 1
        return xnum(neg, n, 0, e if n else 0)
    types = {}
    order = []
    for t in d['types']:
        units = []
        for u in t['units']:
            df = u.get('def')
            if df is None:
                dd = {"kind": "none"}
            elif df.get('ref'):
                dd = {"kind": "ref"}
            elif 'of' in df:
                n, dn = rat_to_nd(df['f'], pi)
                dd = {"kind": "of", "n": n, "d": dn, "of": variant_of(df['of'])}
            else:
                n, dn = rat_to_nd(df['f'], pi)

                def tu(s):
                    tt, uu = s.rsplit('.', 1)
                    return {"T": tt, "u": variant_of(uu)}
                dd = {"kind": "comp", "n": n, "d": dn, "num": [tu(s) for s in df['num']], "den": [tu(s) for s in df['den']]}
            raw = json.dumps(df) if df else ''
            term = ('pi' not in raw) and is_term(resolve(t['T'], variant_of(u['w']))) if df else False
            units.append({"w": u['w'], "term": term, "w_cp": cps(u['w']), "id_cp": cps(variant_of(u['w'])), "const_cp": cps(const_of(u['w'])), "id": variant_of(u['w']), "const": const_of(u['w']),
                          "name": name_of(u['w']), "name_cp": cps(name_of(u['w'])),
                          "sym": u['sym'], "sym_cp": cps(u['sym']),
                          "pfx": u['pfx'] if u['pfx'] else "-", "def": dd,
                          "lit": dec_to_x(u['lit']) if u.get('lit') else {"k": "none"},
                          # the published scale as a number, when it is a terminating decimal
                          "pscale": frac_to_x(resolve(t['T'], variant_of(u['w']))) if term else {"k": "none"}})
        dv = t.get('derive')
        types[t['T']] = {"T": t['T'], "kind": ("single" if len(t['units']) == 1 else "noref") if (t.get('noref') or all(not (u.get('def') or {}).get('ref') for u in t['units'])) else "ref",
                         "derive": {"op": dv['op'], "l": dv['l'], "r": dv['r']} if dv else {"op": "-", "l": "-", "r": "-"},
                         "crate": t.get('crate', 'gen'),
                         "units": units}
        order.append(t['T'])
    return {"order": order, "types": types}
