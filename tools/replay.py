"""./check replay <replay.json>: re-execute one recorded call on the CURRENT tree and let TLC judge it again."""
import json, os, sys


def replay(path, g):
    rp = json.load(open(path, encoding='utf-8'))
    if 'event' not in rp:
        # a driver process that was killed (stack overflow, watchdog): re-observed by re-running the check
        drv = rp.get('driver', {})
        print('replaying %s clause %s' % (rp.get('property'), rp.get('clause')))
        print('the driver did not return; re-observe with:  ./check %s --tier %s --seed %s' % (rp.get('property'), drv.get('tier', 'quick'), drv.get('seed', 0)))
        print('driver command: %s %s' % (drv.get('exe'), ' '.join(drv.get('args', []))))
        return 0
    ev, hdr, drv = rp['event'], rp['header'], rp['driver']
    be = drv.get('be') or hdr.get('be', 'f64')
    reg = drv.get('reg', 'cat')
    print('replaying %s clause %s (%s, registry %s)' % (rp['property'], rp['clause'], be, reg))
    kind = ev.get('ev')
    if reg == 'py' or kind in ('Compile', 'Config', 'GenBuild', 'Format', 'FormatUnit', 'Serde', 'SerdeNames', 'SI', 'Type', 'Unit'):
        print('this event kind is re-observed by re-running its driver:  ./check %s --tier %s --seed %s' % (rp['property'], drv.get('tier', 'quick'), drv.get('seed', 0)))
        if 'program' in ev:
            print('--- program ---')
            print(ev['program'])
        return 0
    rundir = os.path.join(g['WORK'], 'replay_%d' % os.getpid())
    os.makedirs(rundir, exist_ok=True)
    try:
        g['build']((be,))
        mf = os.path.join(rundir, 'one.ndjson')
        e2 = {k: v for k, v in ev.items() if k != 'model'}
        open(mf, 'w', encoding='utf-8').write(json.dumps(e2, ensure_ascii=False) + '\n')
        obs = os.path.join(rundir, 'obs.json')
        g['drive'](be, ['dump', '--reg', reg, '--out', obs])
        tp = os.path.join(rundir, 'trace.ndjson')
        g['drive'](be, ['replay', '--reg', reg, '--in', mf, '--out', tp])
        lines = open(tp, encoding='utf-8').read().splitlines()
        out = [lines[0].replace('"regime":"exact"', '"regime":"%s"' % hdr.get('regime', 'rounded'))]
        for l in lines[1:]:
            d = json.loads(l)
            d.pop('model', None)
            out.append(json.dumps(d, ensure_ascii=False))
        open(tp, 'w', encoding='utf-8').write('\n'.join(out) + '\n')
        decl = g['declared_for'](reg, rundir)
        bads, hits, ne, ns = g['judge_trace'](tp, obs, decl, rundir, 'replay', 1)
        print('outcome now: %s' % json.dumps(g['summarize_event'](json.loads(out[1])), ensure_ascii=False)[:800])
        mine = [c for (_, c, _) in bads]
        if rp['clause'] in mine:
            print('VIOLATION property=%s replay=%s' % (rp['property'], path))
            print('  clause %s is rejected again on the current tree' % rp['clause'])
            return 1
        print('clause %s holds on the current tree (%d clauses evaluated, rejected now: %s)' % (rp['clause'], sum(hits.values()), mine))
        return 0
    finally:
        import shutil
        shutil.rmtree(rundir, ignore_errors=True)
