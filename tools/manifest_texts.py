NOTES = "Every check rebuilds the harness against /repo's working tree (path dependency), records traces from the real code, and lets TLC judge them against spec/*.tla. VERIF_SEED / VERIF_TIER are honoured. Exit 2 = tool error (cannot decide)."

TB = "Trusted: TLC's evaluator and the CommunityModules JSON reader; rustc/cargo; the harness's field split of amounts (mantissa/exponent, no arithmetic); "

TEXTS = {
 'C01': {
  'level': "Bounded model checking of the specification's exact-number kernel plus trace validation: every ordered unit pair (diagonal included) of every type with a reference unit - catalogue, amount type, astronomical crate, fixtures, dyadic model registry - in both back-ends is driven through convert/equiv_amount with structured and seeded random amounts; TLC evaluates, in exact arithmetic, unit' = target, |r*s2 - a*s1| <= Tol, same-unit identity (bit-identical) and equiv = stored. Exhaustive over units and unit pairs, sampled over amounts; not a proof.",
  'note': TB + "the tolerance model of spec/Amount.tla (K=16 ulp relative for f64; 4e-18 times the first-order sensitivities for Decimal); scales are the REPORTED ones (observed registry); where a catalogue unit's reported scale deviates from its published terminating-decimal definition, the *_published clauses (C01/C02/C03/C04/C13) judge the same events with the published scales as well, so a wrong catalogue literal is seen here too (and by C07.scale in any case).",
  'technique': "TLC model checking of the explicit TLA+ calculator machine (MC_Core) + replay of its behaviours on macro-generated types + TLA+ trace validation (TLC) of recorded convert/equiv_amount calls against exact-rational relation; exhaustive unit pairs",
 },
 'C07': {
  'level': "Exhaustive conformance of a finite space: every unit of every predefined quantity (112 main-crate units in f64 and Decimal, 27 astronomical units in f64) is dumped from the real code and TLC checks symbol, name, SI prefix and scale against the independently written definition table spec/catalogue.json, chaining each definition to the reference unit in exact rational arithmetic (terminating decimals: exact in Decimal / nearest double in f64; others: 1e-18 absolute in Decimal / 2^-52 relative in f64), plus pairwise SI-prefix consistency and reference scale one.",
  'note': TB + "spec/catalogue.json, written by hand from the published definitions (not from the literals), is the reference and is small enough to review.",
  'technique': "TLA+ trace validation of the observed unit registry against an independent declared table, exact rational chaining in TLC; exhaustive",
 },
 'C09': {
  'level': "Trace validation against the specification's transcription of the registry rules: iteration order = reference unit first + stable sort by scale (name order without reference unit), constants = variants, first-match look-ups by symbol and scale, exactly one reference unit, unit-as-quantity. Exhaustive over all units of all registered types (catalogue, astronomical, fixtures, model registry - the latter with tied scales); look-up keys are every declared symbol/scale plus near misses, neighbours, special values and seeded random keys.",
  'note': TB + "declared registries (spec/catalogue.json, spec/models/*.json) give the declaration order; expected first-match uses the observed iteration order, which is itself checked against the declared one.",
  'technique': "TLC model checking of the explicit TLA+ calculator machine (MC_Core) + replay of its behaviours on macro-generated types + TLA+ trace validation of iteration order / look-ups against ExpectedOrder and first-match operators",
 },
}

TEXTS.update({
 'C02': {
  'level': "Trace validation of comparisons recorded in BOTH operand orders: for every ordered unit pair of every type with a reference unit, amount pairs built to be equal in exact arithmetic, their floating-point / 1e-18 neighbours, clearly separated pairs, mixed signs, zeros (plus NaN/inf for the consistency clauses) are compared with ==, !=, <, <=, >, >=, partial_cmp as (a,b) and (b,a); TLC decides the exact order of the magnitudes with big-number arithmetic and checks (i) agreement with it beyond one conversion's rounding error, (ii) same-unit = amount type's own comparison, (iii) the symmetry laws with no tolerance at all, (iv) internal consistency. Exhaustive over unit pairs, sampled over amounts.",
  'note': TB + "CmpSeparated in spec/Quantities.tla defines 'more than the rounding error of one conversion'.",
  'technique': "TLC model checking of the explicit TLA+ calculator machine (MC_Core) + replay of its behaviours on macro-generated types + TLA+ trace validation of both-order comparison events; symmetry clauses exact, order clause against exact magnitudes",
 },
 'C03': {
  'level': "Trace validation: a+b, a-b, a/b for every ordered unit pair of every type with a reference unit; TLC checks result unit = left operand's unit, magnitude = exact sum/difference/ratio within the additive tolerance model (cancellation does not shrink the tolerance), and bit-identity with the amount type's own operator when units are equal. Exhaustive over unit pairs, sampled over amounts.",
  'note': TB + "tolerance model of DESIGN.md appendix A as written in AddWithin / RatioWithin.",
  'technique': "TLC model checking of the explicit TLA+ calculator machine (MC_Core) + replay of its behaviours on macro-generated types + TLA+ trace validation of +,-,/ events against exact-rational relations",
 },
 'C04': {
  'level': "Trace validation of every derived operator instance that the declared derivations generate (catalogue 34, astronomical 4, fixtures, model registry) over all operand unit pairs: TLC checks that amount x unit-scale of the result equals the exact product / quotient of the operands' reference-unit magnitudes within tolerance, and that the owned, &a, &b, &a&b forms return identical values. Operator existence and result type are C06's business.",
  'note': TB + "DerivedTol in spec/Quantities.tla; the instance list is generated from spec/catalogue.json + spec/models/*.json.",
  'technique': "TLC model checking of the explicit TLA+ calculator machine (MC_Core) + replay of its behaviours on macro-generated types + TLA+ trace validation of derived mul/div events (all borrow forms) against exact magnitudes",
 },
 'C05': {
  'level': "Trace validation of the unit choice: operands are chosen so that the exact result magnitude lands on, one representable step below and above every unit scale of the result type (plus zero / negative results) and _fit is also called directly on those magnitudes; TLC computes Natural(k) from the amount-type product/quotient of the two scales and BestFit over the eligible (SI-prefixed when the reference unit is) units - as a band when the magnitude is only known up to rounding, sharply when it is exact - and checks unit membership, reference-in => reference-out, and amount = amount type's own product/quotient in the natural-unit case.",
  'note': TB + "BestFitBand / Eligible / Natural in spec/Quantities.tla are the property-level definition, independent of the filter/first/last algorithm in the code.",
  'technique': "TLC model checking of the explicit TLA+ calculator machine (MC_Core) + replay of its behaviours on macro-generated types + TLA+ trace validation of result-unit selection against a declarative best-fit set; boundary magnitudes by construction",
 },
 'C08': {
  'level': "Trace validation, exhaustive over types x units: new / amount*unit / unit*amount store exactly the given amount (bit-identical, NaN/inf/-0 included) and unit; k*q, q*k, q/k keep the unit and equal the amount type's own product/quotient bit for bit; the amount type itself has one unit with empty symbol and scale one.",
  'note': TB + "the amount type's own * and / define the reference values (logged as 'ref').",
  'technique': "TLC model checking of the explicit TLA+ calculator machine (MC_Core) + replay of its behaviours on macro-generated types + TLA+ trace validation of constructor / scalar events, bit-identity clauses",
 },
 'C10': {
  'level': "Trace validation over all ordered unit pairs of every type without reference unit (Temperature, fixtures, model types) and single-unit types: == iff same unit and equal amounts, different units unordered (all four relational operators false, partial_cmp None), + - / across units panic (recorded through catch_unwind), same-unit results bit-identical to the amount type's.",
  'note': TB + "panics are observed at the harness boundary.",
  'technique': "TLC model checking of the explicit TLA+ calculator machine (MC_Core) + replay of its behaviours on macro-generated types + TLA+ trace validation of comparison/arithmetic events on no-reference-unit types incl. panic outcomes",
 },
 'C13': {
  'level': "Trace validation of Rate: components, reciprocal (and reciprocal twice), rate*q, q*rate, q/rate over all term/per/operand units for ordered type pairs from a representative set; TLC checks result unit, value = ta*(q in per unit)/pm resp. pm*(q in term unit)/ta within tolerance, the same through the reciprocal, and there-and-back; mixed units of a no-reference type must panic.",
  'note': TB + "RateMulWithin / BackWithin in spec/Rates.tla.",
  'technique': "TLC model checking of the explicit TLA+ calculator machine (MC_Core) + replay of its behaviours on macro-generated types + TLA+ trace validation of rate events against exact relations",
 },
 'C14': {
  'level': "Trace validation: ConversionTable with N in 0..8 seeded random rows (duplicates, missing pairs): same unit => unchanged, else first matching row => amount bit-identical to amount*factor+offset computed by the amount type, else None; the predefined temperature table covers all 6 ordered pairs and matches the exact physical formulas (held as rationals in the specification) within tolerance, which implies mutual inverseness and consistent composition up to rounding.",
  'note': TB + "TempPhys in spec/Rates.tla (0 degC = 273.15 K, degF = degC*9/5+32).",
  'technique': "TLC model checking of the explicit TLA+ calculator machine (MC_Core) + replay of its behaviours on macro-generated types + TLA+ trace validation of table conversions: first-row semantics + exact physical temperature formulas",
 },
 'C15': {
  'level': "Trace validation on code-point sequences: TLC strips the padding, parses sign/digits/fraction/space/symbol, and checks layout, single sign, width counted in characters, alignment, symbol resolving to the stored unit, text reading back to exactly the stored amount (Decimal: equal; f64: inside the rounding interval given by the logged neighbour doubles), exactly p fractional digits correctly rounded, unit display = str formatting of the symbol, unit-less values = the amount type's own formatting, rate display. Every (plus, align, fill) shape incl. a non-ASCII fill is covered with rotating widths/precisions; amounts and remaining choices are sampled.",
  'note': TB + "Rust's Display of the amount type and of str are the reference for unit-less values and units. The 0 and # flags are not claimed.",
  'technique': "TLA+ trace validation of formatted text (code points) against a layout/parse specification",
 },
 'C16': {
  'level': "Exhaustive over the finite parts: all 25 prefixes (name, abbreviation, exponent against the SI brochure table in spec/SI.tla), from_exp for all 256 i8 values, from_abbr for all strings of length <= 2 over the abbreviation alphabet plus foreign characters, iteration order; plus seeded random strings.",
  'note': TB + "spec/SI.tla written from the SI brochure (9th ed. + 2022 prefixes).",
  'technique': "TLA+ trace validation against an independent SI table; exhaustive",
 },
 'C17': {
  'level': "Trace validation of serde round trips for every unit of every catalogue type in both back-ends, through serde_json::Value and through JSON text parsed with float_roundtrip: unit serialises as its variant name, amount as a number (f64) / decimal string (Decimal) denoting exactly the stored value, and deserialisation returns the identical unit and bit-identical amount; injectivity follows from the round trip. Encode/decode fidelity is not the home ground of the technique: the specification contributes the representation contract and the oracle.",
  'note': TB + "serde_json with float_roundtrip as the exactly rounding parser.",
  'technique': "TLA+ trace validation of serialisation round-trip events",
 },
 'C18': {
  'level': "Trace validation of totality: a special-value sweep (f64: +-0, subnormals, +-MAX, +-inf, NaN in all combinations; Decimal: amounts at and beyond the edges of the stated range) through convert, compare, + - /, scalar, derived, fit, rate and format operations; the Decimal in-range predicate of the property is evaluated exactly by TLC per event, events outside it are out of claim, a panic inside it (or any panic in f64) is a violation. The C18.total clauses are also evaluated on the traces of the other arithmetic properties.",
  'note': TB + "ConvInRange / ArithInRange / DerivedInRange / RateInRange in the specification are the reading of 'every magnitude that naturally arises'.",
  'technique': "TLA+ trace validation of panic outcomes against an exact in-range predicate; special-value sweep",
 },
})

TEXTS.update({
 'C06': {
  'level': "Exhaustive over the finite program space: all 15x15x6 = 1350 binary-operator programs over the 14 catalogue types and the amount type (plus 150 for the astronomical crate), in both back-ends, each a function of its own in one crate compiled by rustc; every accepted program is compiled again with each of the 16 possible result-type ascriptions. TLC predicts every verdict from the DECLARED derivations alone (like-with-like rules, scalar rules, the operator table the derivations generate) - 3782 + 3782 + 402 verdicts per run. Thorough additionally recompiles a sample of rejected programs on their own to rule out masking.",
  'note': TB + "rustc's type checker is the observer; spec/Types.tla holds TypeChecks / ResultType.",
  'technique': "TLA+ trace validation of compiler verdicts on an exhaustively generated program family",
 },
 'C11': {
  'level': "VERIF_SEED-generated well-formed declarations (alphabetic snake/camel identifiers, non-ASCII symbols, several literal spellings of the same scale, optional prefixes / docs, with and without reference unit, single-unit, derived incl. squares and AmountT quotients) are rendered twice - original and with permuted unit attributes - through the REAL proc macro, compiled in both back-ends, dumped and driven through the generic drivers of C01-C05, C08-C10; TLC judges names / variants / constants (identifier mapping transcribed on code points), symbols, prefixes, scales (the literal's exact value), iteration order (stable sort, ties in attribute order) and every arithmetic clause family against each declaration; failure of the generated items to compile is a violation. The model and fixture registries are included.",
  'note': TB + "the generator (tools/gen_decl.py) only produces declarations inside the claimed sub-language (alphabetic words; scales identical or clearly distinct).",
  'technique': "TLA+ trace validation of macro-generated types against their own (generated, permuted) declarations",
 },
 'C12': {
  'level': "Model checking: the attribute-argument parser as an explicit automaton is compared with the documented argument forms over ALL token-kind sequences up to length 9 (2.4 million). Conformance: about 40 defect classes applied to seeded well-formed definitions, each program compiled on its own by rustc against the freshly built library in both back-ends; WellFormed() in spec/Macro.tla predicts the verdict from an abstract description of the definition, and the error must be reported within the lines of the offending definition. Each well-formed base is compiled too.",
  'note': TB + "rustc diagnostics (primary spans and macro call sites) locate errors; diagnostic text is not compared.",
  'technique': "TLC model checking of the parser automaton + TLA+ trace validation of compile verdicts on defect-injected definitions",
 },
 'C19': {
  'level': "Model checking of the configuration machine over all 2^14 feature sets (every set builds, is self-contained, API grows monotonically) plus conformance: Cargo.toml's feature edges and each module's use-edges are checked against the declared derivations; cargo check of feature configurations with a probe program per feature that names the quantity, its reference-unit constant and its derivation operator (quick: 16 choices in the default configuration + all/none/two rotating singles in the other seven {std,no_std}x{f64,Decimal}x{serde} configurations; thorough: all 128); a fixed operation corpus (conversions, comparisons, arithmetic, formatting, table conversions) executed in a minimal no_std configuration and in the full std configuration must print identical results in both back-ends.",
  'note': TB + "cargo/rustc decide 'builds'; the corpus compares printed exact representations.",
  'technique': "TLC model checking of the feature machine + TLA+ trace validation of build verdicts and a differential operation corpus",
 },
})

NOT_APPLICABLE = {
}
