NOTES = "Every check rebuilds the harness against /repo's working tree (path dependency), records traces from the real code, and lets TLC judge them against spec/*.tla. VERIF_SEED / VERIF_TIER are honoured. Exit 2 = tool error (cannot decide)."

TB = "Trusted: TLC's evaluator and the CommunityModules JSON reader; rustc/cargo; the harness's field split of amounts (mantissa/exponent, no arithmetic); "

TEXTS = {
 'C01': {
  'level': "Bounded model checking of the specification's exact-number kernel plus trace validation: every ordered unit pair (diagonal included) of every type with a reference unit - catalogue, amount type, astronomical crate, fixtures, dyadic model registry - in both back-ends is driven through convert/equiv_amount with structured and seeded random amounts; TLC evaluates, in exact arithmetic, unit' = target, |r*s2 - a*s1| <= Tol, same-unit identity (bit-identical) and equiv = stored. Exhaustive over units and unit pairs, sampled over amounts; not a proof.",
  'note': TB + "the tolerance model of spec/Amount.tla (K=16 ulp relative for f64; 4e-18 times the first-order sensitivities for Decimal); scales are taken from the observed registry (a wrong catalogue literal is C07's business).",
  'technique': "TLA+ trace validation (TLC) of recorded convert/equiv_amount calls against exact-rational relation; exhaustive unit pairs",
 },
 'C07': {
  'level': "Exhaustive conformance of a finite space: every unit of every predefined quantity (112 main-crate units in f64 and Decimal, 27 astronomical units in f64) is dumped from the real code and TLC checks symbol, name, SI prefix and scale against the independently written definition table spec/catalogue.json, chaining each definition to the reference unit in exact rational arithmetic (terminating decimals: exact in Decimal / nearest double in f64; others: 1e-18 absolute in Decimal / 2^-52 relative in f64), plus pairwise SI-prefix consistency and reference scale one.",
  'note': TB + "spec/catalogue.json, written by hand from the published definitions (not from the literals), is the reference and is small enough to review.",
  'technique': "TLA+ trace validation of the observed unit registry against an independent declared table, exact rational chaining in TLC; exhaustive",
 },
 'C09': {
  'level': "Trace validation against the specification's transcription of the registry rules: iteration order = reference unit first + stable sort by scale (name order without reference unit), constants = variants, first-match look-ups by symbol and scale, exactly one reference unit, unit-as-quantity. Exhaustive over all units of all registered types (catalogue, astronomical, fixtures, model registry - the latter with tied scales); look-up keys are every declared symbol/scale plus near misses, neighbours, special values and seeded random keys.",
  'note': TB + "declared registries (spec/catalogue.json, spec/models/*.json) give the declaration order; expected first-match uses the observed iteration order, which is itself checked against the declared one.",
  'technique': "TLA+ trace validation of iteration order / look-ups against ExpectedOrder and first-match operators",
 },
}

NOT_APPLICABLE = {
}
