"""Compile-time observations: the 'execution' is a compiler run, the event is its verdict and diagnostics.
Programs are generated from the DECLARED registry; the verdict expected for each is predicted by the TLA+
specification (TypeChecks / ResultType / WellFormed), never here."""
import json, os, subprocess, shutil, hashlib
from concurrent.futures import ThreadPoolExecutor

OPS = [('add', '+'), ('sub', '-'), ('mul', '*'), ('div', '/'), ('eq', '=='), ('lt', '<')]


def rust_type(t, declared_types):
    if t == 'Amount':
        return 'quantities::AmountT'
    d = declared_types[t]
    return d['path'] + '::' + d.get('rust', t.split('.')[-1])


def lockfile(repo):
    """Cargo.lock to start from: the repository's own if it has one, else the harness's (a superset)"""
    p = os.path.join(repo, 'Cargo.lock')
    if os.path.exists(p):
        return p
    return os.path.join(os.path.dirname(os.path.dirname(os.path.abspath(__file__))), 'harness', 'Cargo.lock')


def write_crate(dirpath, repo, be, body, astro=False, extra_features=(), extra_deps=()):
    os.makedirs(os.path.join(dirpath, 'src'), exist_ok=True)
    feats = ['doc'] + (['fpdec'] if be == 'dec' else []) + list(extra_features)
    toml = ['[package]', 'name = "probe"', 'version = "0.0.0"', 'edition = "2021"', '', '[dependencies]',
            'quantities = { path = "%s", features = [%s] }' % (repo, ', '.join('"%s"' % f for f in feats))]
    if astro:
        toml.append('astronomical-quantities = { path = "%s/astronimical_quantities" }' % repo)
    toml += list(extra_deps)
    toml += ['', '[workspace]', '', '[profile.dev]', 'debug = false', 'incremental = false']
    open(os.path.join(dirpath, 'Cargo.toml'), 'w').write('\n'.join(toml) + '\n')
    shutil.copy(lockfile(repo), os.path.join(dirpath, 'Cargo.lock'))
    open(os.path.join(dirpath, 'src', 'lib.rs'), 'w', encoding='utf-8').write(body)


def cargo_check(dirpath, target_dir, timeout=900):
    env = dict(os.environ)
    env.update({'CARGO_NET_OFFLINE': 'true', 'CARGO_TARGET_DIR': target_dir})
    p = subprocess.run(['cargo', 'check', '--offline', '--message-format=json', '--lib'], cwd=dirpath, env=env,
                       stdout=subprocess.PIPE, stderr=subprocess.PIPE, timeout=timeout, text=True, errors='replace')
    diags = []
    dep_failed = None
    for line in p.stdout.splitlines():
        try:
            m = json.loads(line)
        except Exception:
            continue
        if m.get('reason') == 'compiler-message':
            msg = m['message']
            pkg = m.get('package_id', '')
            if msg.get('level') not in ('error',):
                continue
            target_is_probe = m.get('target', {}).get('name') == 'probe'
            lines = [s['line_start'] for s in msg.get('spans', []) if s.get('is_primary') and s.get('file_name', '').endswith('src/lib.rs')]
            # errors whose primary span is inside a macro expansion point at the expansion's call site
            if not lines:
                for s in msg.get('spans', []):
                    e = s.get('expansion')
                    while e:
                        sp = e.get('span', {})
                        if sp.get('file_name', '').endswith('src/lib.rs'):
                            lines.append(sp['line_start'])
                        e = sp.get('expansion')
            code = (msg.get('code') or {}).get('code') or '-'
            if target_is_probe:
                diags.append({'lines': lines, 'code': code, 'msg': msg.get('message', '')[:200]})
            else:
                dep_failed = (pkg, msg.get('message', ''))
        elif m.get('reason') == 'build-finished':
            pass
    return p.returncode, diags, dep_failed, p.stderr[-3000:]


def binop_programs(declared, types, with_ascription_for=None):
    """one function per line; returns (source, index) where index[line] = program description"""
    dt = {t['T']: t for t in declared['types']}
    head = ['#![allow(unused, dead_code, clippy::all)]', 'use quantities::prelude::*;']
    lines = list(head)
    index = {}
    for L in types:
        for R in types:
            for opn, op in OPS:
                ln = len(lines) + 1
                lines.append('pub fn p%d(a: %s, b: %s) { let _r = a %s b; }' % (ln, rust_type(L, dt), rust_type(R, dt), op))
                index[ln] = {'kind': 'binop', 'op': opn, 'L': L, 'R': R, 'asc': '-'}
    return lines, index, dt


def add_ascriptions(lines, index, dt, accepted, types):
    for prog in accepted:
        opn = prog['op']
        op = dict(OPS)[opn]
        for X in list(types) + ['bool']:
            ln = len(lines) + 1
            xt = 'bool' if X == 'bool' else rust_type(X, dt)
            lines.append('pub fn p%d(a: %s, b: %s) { let _r: %s = a %s b; }' % (ln, rust_type(prog['L'], dt), rust_type(prog['R'], dt), xt, op))
            index[ln] = {'kind': 'binop', 'op': opn, 'L': prog['L'], 'R': prog['R'], 'asc': X}


def verdicts(index, diags):
    bad = {}
    stray = []
    for d in diags:
        if not d['lines']:
            stray.append(d)
        for ln in d['lines']:
            if ln in index:
                bad.setdefault(ln, []).append(d['code'])
            else:
                stray.append(d)
    evs = []
    for ln, prog in sorted(index.items()):
        e = dict(prog)
        e['line'] = ln
        e['verdict'] = 'err' if ln in bad else 'ok'
        e['codes'] = sorted(set(bad.get(ln, [])))
        evs.append(e)
    return evs, stray
