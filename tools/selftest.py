"""./check selftest : demonstration that the specification is bound to the recorded events.
A trace recorded from the real code (fixture registry, f64) is judged clean; then single fields of single
events are corrupted (result unit, one limb of a result mantissa, an outcome, a comparison answer) and TLC must
reject exactly the corrupted lines - and nothing else."""
import json, os, copy, random


def selftest(g):
    WORK = g['WORK']
    rundir = os.path.join(WORK, 'selftest_%d' % os.getpid())
    os.makedirs(rundir, exist_ok=True)
    try:
        g['build'](('f64',))
        obs = os.path.join(rundir, 'obs.json')
        g['drive']('f64', ['dump', '--reg', 'fx', '--out', obs])
        decl = g['declared_for']('fx', rundir)
        ok_all = True
        for drv, mutate in (('c01', m_convert), ('c02', m_cmp), ('c03', m_arith), ('c04', m_derived)):
            tp = os.path.join(rundir, drv + '.ndjson')
            g['drive']('f64', [drv, '--reg', 'fx', '--seed', '7', '--tier', 'quick', '--out', tp])
            lines = open(tp, encoding='utf-8').read().splitlines()
            bads, hits, ne, ns = g['judge_trace'](tp, obs, decl, rundir, 'clean_' + drv, 4)
            print('%s: clean trace, %d events, %d rejected' % (drv, ne, len(bads)))
            ok_all &= (len(bads) == 0)
            rnd = random.Random(11)
            picks = rnd.sample(range(1, len(lines)), 5)
            corrupted = list(lines)
            expect = set()
            for i in picks:
                e = json.loads(lines[i])
                e2 = mutate(copy.deepcopy(e), rnd)
                if e2 is not None:
                    corrupted[i] = json.dumps(e2, ensure_ascii=False)
                    expect.add(json.dumps(e2, ensure_ascii=False, sort_keys=True))
            tp2 = os.path.join(rundir, drv + '_corrupt.ndjson')
            open(tp2, 'w', encoding='utf-8').write('\n'.join(corrupted) + '\n')
            bads, hits, ne, ns = g['judge_trace'](tp2, obs, decl, rundir, 'corrupt_' + drv, 4)
            got = {json.dumps(ev, ensure_ascii=False, sort_keys=True) for (ev, cid, hdr) in bads}
            print('%s: %d fields corrupted -> %d events rejected (%s); exactly the corrupted ones: %s' % (
                drv, len(expect), len(got), sorted({cid for (_, cid, _) in bads}), got == expect))
            ok_all &= (got == expect)
            for x in sorted(expect - got):
                print('   NOT REJECTED:', x[:900])
        print('SELFTEST', 'PASSED' if ok_all else 'FAILED')
        return 0 if ok_all else 1
    finally:
        import shutil
        shutil.rmtree(rundir, ignore_errors=True)


def bump_limb(x):
    if isinstance(x, dict) and x.get('k') == 'fin':
        m = x.get('m') or []
        if m:
            m[-1] = m[-1] + 1 if m[-1] < 9999 else m[-1] - 1      # most significant limb: far outside any tolerance
        else:
            x['m'] = [1]
        x.pop('r', None)
        return True
    return False


def m_convert(e, rnd):
    if 'ok' not in e['out']:
        return None
    if rnd.random() < 0.5 and e['v']['u'] != e['to']:
        bump_limb(e['out']['ok']['a'])
        bump_limb(e['eqv']['ok'])
    else:
        e['out']['ok']['u'] = e['v']['u'] if e['v']['u'] != e['to'] else 'Nonexistent'
    return e


def m_cmp(e, rnd):
    if 'ok' not in e['ab']:
        return None
    e['ab']['ok']['lt'] = not e['ab']['ok']['lt']
    return e


def m_arith(e, rnd):
    if 'ok' not in e['out']:
        return None
    # results of cancelling operands are tiny compared with the operands: a corruption of theirs is (rightly)
    # inside the additive tolerance, so it is not a fair test of the binding
    if e['op'] != 'div' and len(e['out']['ok']['a'].get('m') or []) < 3 and e['x']['u'] != e['y']['u']:
        return None
    bump_limb(e['out']['ok']['a'])
    return e


def m_derived(e, rnd):
    if 'ok' not in e['out']:
        return None
    if rnd.random() < 0.5:
        bump_limb(e['br']['ok']['a'])
    else:
        bump_limb(e['out']['ok']['a'])
    return e
