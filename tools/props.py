"""Which drivers, model-checking configurations and clause families decide which property.
Pure configuration: no verdict is computed here."""

MC_CONFIGS = {
    'MC_Num': {'tla': 'MC_Num.tla', 'cfg': 'MC_Num.cfg', 'workers': 4, 'timeout': 300},
    'MC_Macro': {'tla': 'MC_Macro.tla', 'cfg': 'MC_Macro.cfg', 'workers': 8, 'timeout': 600},
}

REGS3 = ['cat', 'fx', 'core']


def drv(name, regs=REGS3, bes=('f64', 'dec'), args=None):
    return [{'drv': name, 'reg': r, 'bes': list(bes), 'args': args or []} for r in regs]


PROPS = {
    'C01': {
        'mc': ['MC_Num'],
        'drivers': drv('c01'),
        'clauses': ['C01.'],
        'must_hit': ['C01.unit', 'C01.same', 'C01.equiv', 'C01.mag'],
        'nontrivial': ['C01.mag'],
        'rule': 'every type with a reference unit (catalogue, dimensionless amount, astronomical crate (f64), synthetic fixtures, dyadic model registry) x every ordered unit pair incl. the diagonal x structured + seeded random amounts; an event is non-trivial when the two units differ and the amount is in range (clause C01.mag evaluated)',
    },
    'C07': {
        'mc': [],
        'drivers': drv('units', regs=['cat']),
        'clauses': ['C07.'],
        'must_hit': ['C07.symbol', 'C07.name', 'C07.prefix', 'C07.scale', 'C07.ref_scale_one', 'C07.prefix_consistent'],
        'nontrivial': ['C07.scale'],
        'exhaustive': True,
        'rule': 'every unit of every predefined quantity (main crate in both back-ends, astronomical crate in f64) against spec/catalogue.json chained to the reference unit by TLC in exact arithmetic; non-trivial = unit with a scale checked against its definition',
        'assumptions': ['spec/catalogue.json (hand-written declared table) is the published definition'],
    },
    'C09': {
        'mc': [],
        'drivers': drv('units') + drv('lookup'),
        'py': ['c09gen'],
        'clauses': ['C09.'],
        'must_hit': ['C09.iter_exact', 'C09.consts', 'C09.one_ref', 'C09.unit_from_symbol', 'C09.unit_from_scale', 'C09.as_qty', 'C09.from_symbol', 'C09.from_scale'],
        'nontrivial': ['C09.from_symbol', 'C09.from_scale', 'C09.iter_exact'],
        'rule': 'all units of all registered types (catalogue, astronomical, fixtures, model registry); look-up keys: every declared symbol, case-flipped / one-edit near misses, random strings; every declared scale, its neighbours and special values',
    },
    'C02': {
        'mc': [],
        'drivers': drv('c02'),
        'clauses': ['C02.'],
        'must_hit': ['C02.same', 'C02.order', 'C02.sym', 'C02.consistent'],
        'nontrivial': ['C02.order', 'C02.sym'],
        'rule': 'all types with reference unit x all ordered unit pairs x amount pairs built to be equal by construction in exact arithmetic, their neighbours (next float up/down, +-1e-18), clearly separated pairs, mixed signs, zero; NaN/inf pairs for the consistency clauses; every event carries the seven answers in both operand orders',
    },
    'C03': {
        'mc': [],
        'drivers': drv('c03'),
        'clauses': ['C03.'],
        'must_hit': ['C03.unit', 'C03.same', 'C03.mag', 'C03.ratio'],
        'nontrivial': ['C03.mag', 'C03.ratio'],
        'rule': 'all types with reference unit x all ordered unit pairs x amount pairs (equal magnitudes in different units, cancelling pairs, separated, random) x {+,-,/}',
    },
    'C04': {
        'mc': [],
        'drivers': drv('c04'),
        'clauses': ['C04.'],
        'must_hit': ['C04.borrow', 'C04.mag'],
        'nontrivial': ['C04.mag'],
        'rule': 'every derived operator instance generated from the declared derivations (catalogue 34, astronomical 4, fixtures, model registry) x all operand unit pairs x amount pairs; owned and the three borrowed forms',
    },
    'C05': {
        'mc': [],
        'drivers': drv('c05') + drv('c04'),
        'clauses': ['C05.'],
        'must_hit': ['C05.unit_of_result', 'C05.ref_in_ref_out', 'C05.natural', 'C05.fit', 'C05.fit_direct', 'C05.fit_amount'],
        'nontrivial': ['C05.natural', 'C05.fit', 'C05.fit_direct'],
        'rule': 'every derived operator instance x all operand unit pairs x amounts chosen so that the result magnitude lands on, one step below and one step above every unit scale of the result type, zero and negative results; plus direct _fit(m) sweeps over the same magnitudes',
    },
    'C08': {
        'mc': [],
        'drivers': drv('c08') + drv('units'),
        'clauses': ['C08.'],
        'must_hit': ['C08.new', 'C08.scalar', 'C08.amount_type'],
        'nontrivial': ['C08.new', 'C08.scalar'],
        'rule': 'every type (with reference unit, without, single-unit, dimensionless) x every unit x amounts incl. +-0, +-inf, NaN, subnormal, MAX (f64) / extreme coefficients (Decimal) x {new, amount*unit, unit*amount, k*q, q*k, q/k}',
    },
    'C10': {
        'mc': [],
        'drivers': drv('c10'),
        'clauses': ['C10.'],
        'must_hit': ['C10.eq', 'C10.unordered', 'C10.same', 'C10.panic'],
        'nontrivial': ['C10.unordered', 'C10.panic', 'C10.eq'],
        'rule': 'Temperature, fixtures and model types without reference unit, single-unit types x all ordered unit pairs x amount pairs (equal amounts in different units included) x {==,<,...,+,-,/}; panics caught at the harness boundary and recorded',
    },
    'C13': {
        'mc': [],
        'drivers': drv('c13'),
        'clauses': ['C13.'],
        'must_hit': ['C13.components', 'C13.reciprocal', 'C13.unit', 'C13.value', 'C13.via_reciprocal', 'C13.inverse'],
        'nontrivial': ['C13.value', 'C13.inverse'],
        'rule': 'ordered pairs of quantity types from a representative set (with reference unit, dimensionless amount, single-unit, no-reference) x all term / per / operand units x amounts with per-multiples that are not powers of ten; rate*q, q*rate, q/rate, the same through the reciprocal, and there-and-back',
    },
    'C14': {
        'mc': [],
        'drivers': drv('c14'),
        'clauses': ['C14.'],
        'must_hit': ['C14.same_unit', 'C14.first_row', 'C14.no_entry', 'C14.temperature_covers', 'C14.temperature_physical'],
        'nontrivial': ['C14.first_row', 'C14.no_entry', 'C14.temperature_physical'],
        'rule': 'ConversionTable<_, N>, N in 0..8, rows drawn by VERIF_SEED (duplicates, missing pairs) over types without reference unit x all unit pairs; the predefined TEMPERATURE_CONVERTER x 9 unit pairs x temperatures incl. fixed points',
    },
    'C15': {
        'mc': [],
        'drivers': drv('c15'),
        'clauses': ['C15.'],
        'must_hit': ['C15.layout', 'C15.sign', 'C15.width', 'C15.align', 'C15.parse_back', 'C15.prec_digits', 'C15.prec_rounded', 'C15.unit_display', 'C15.rate_display', 'C15.unitless', 'C15.symbol_resolves'],
        'nontrivial': ['C15.width', 'C15.prec_rounded', 'C15.parse_back'],
        'rule': 'all units of all types x amounts of every sign / magnitude class (negative, negative zero, rounds to zero, rounds across a digit boundary, 17 significant / 18 fractional digits, huge) x format specifications: every (plus, align, fill incl. non-ASCII) combination with rotating widths 0..40 and precisions none / 0..20, plus seeded random specifications',
    },
    'C16': {
        'mc': [],
        'drivers': [{'drv': 'c16', 'reg': 'cat', 'bes': ['f64'], 'args': []}],
        'clauses': ['C16.'],
        'must_hit': ['C16.iter', 'C16.entry', 'C16.from_exp', 'C16.from_abbr'],
        'nontrivial': ['C16.from_exp', 'C16.from_abbr', 'C16.entry'],
        'exhaustive': True,
        'rule': 'all 25 prefixes; all 256 values of i8; all strings of length <= 2 over the abbreviation alphabet plus foreign characters (u, Greek mu, K, ...), prefix names, seeded random strings',
    },
    'C17': {
        'mc': [],
        'drivers': drv('c17', regs=['cat']),
        'clauses': ['C17.'],
        'must_hit': ['C17.unit_variant', 'C17.tree_unit', 'C17.tree_amount', 'C17.roundtrip_tree', 'C17.roundtrip_text', 'C17.unit_roundtrip'],
        'nontrivial': ['C17.roundtrip_text', 'C17.roundtrip_tree'],
        'rule': 'all units of all catalogue types x adversarial finite amounts (17 significant digits, 18 fractional digits, MIN_POSITIVE, MAX, +-0, i128-wide coefficients) through serde_json::Value and JSON text (float_roundtrip parser)',
    },
    'C18': {
        'mc': [],
        'drivers': (drv('c18')
                    + [dict(d, only='thorough') for n in ('c01', 'c02', 'c03', 'c04', 'c05', 'c08', 'c13', 'c14', 'c15') for d in drv(n, regs=['cat'])]
                    + [d for n in ('c01', 'c03', 'c04', 'c05', 'c13', 'c15') for d in drv(n, regs=['fx', 'core'])]),
        'clauses': ['C18.'],
        'must_hit': ['C18.total.convert', 'C18.total.cmp', 'C18.total.arith', 'C18.total.derived', 'C18.total.fit', 'C18.total.rate', 'C18.total.format', 'C18.total.scalar'],
        'nontrivial': ['C18.total.convert', 'C18.total.cmp', 'C18.total.arith', 'C18.total.derived', 'C18.total.rate'],
        'rule': 'special-value sweep: every operation x unit pairs x {+-0, subnormal, +-MAX, +-inf, NaN}^2 (f64) / amounts at and beyond the edges of the decimal range predicate (Decimal; the specification decides exactly which events are inside the claim), plus the C18.total clauses evaluated on the traces of C01-C05, C08, C13-C15 (quick: fixture and model registries; thorough: the whole catalogue)',
    },
    'C06': {
        'mc': [],
        'drivers': [],
        'py': ['c06'],
        'clauses': ['C06.'],
        'must_hit': ['C06.accepts_meaningful', 'C06.rejects_meaningless', 'C06.result_type_exact'],
        'nontrivial': ['C06.accepts_meaningful', 'C06.rejects_meaningless', 'C06.result_type_exact'],
        'exhaustive': True,
        'rule': 'all ordered pairs of the 14 catalogue types and the amount type x {+,-,*,/,==,<} (1350 programs) per back-end, the same for the astronomical crate (f64), each accepted program again with every possible result-type ascription; one function per program, verdict = rustc reports an error whose primary span lies in that function; expected verdict computed by TLC from the declared derivations',
        'assumptions': ['rustc type checker is the observer of "type-checks"'],
    },
    'C11': {
        'mc': [],
        'drivers': drv('units', regs=['fx', 'core']),
        'py': ['c11'],
        'clauses': ['C'],
        'must_hit': ['C11.symbol', 'C11.name', 'C11.prefix', 'C11.scale', 'C11.variant_and_const_names', 'C11.generated_items_compile', 'C09.iter_exact', 'C09.consts'],
        'nontrivial': ['C11.scale', 'C11.symbol', 'C09.iter_exact'],
        'rule': 'VERIF_SEED-generated well-formed declarations (1-8 units, alphabetic snake/camel identifiers, symbols incl. non-ASCII, integer / float / exponent literal spellings of the same scale, optional SI prefix and docs, with / without reference unit, single-unit, basic and derived incl. squares and AmountT quotients), each rendered twice (original and attribute-permuted) through the real macro, compiled in both back-ends, dumped, and driven through the generic drivers of C01-C05, C08-C10; every clause of every family is judged on them',
    },
    'C12': {
        'mc': ['MC_Macro'],
        'drivers': [],
        'py': ['c12'],
        'clauses': ['C12.'],
        'must_hit': ['C12.malformed_rejected', 'C12.error_at_definition', 'C12.defect_class_is_malformed'],
        'nontrivial': ['C12.malformed_rejected'],
        'rule': 'about 40 defect classes (no unit, two reference units, scale on reference unit, unit without scale, scale / prefix without reference unit, missing / mistyped / surplus / misordered attribute arguments, missing comma, no argument list, named / tuple fields, type / lifetime / const generic parameters, enum / fn / type items, seven malformed #[quantity(..)] arguments, derived definitions whose operand or result lacks a reference unit) applied to VERIF_SEED-generated well-formed definitions (each base is compiled too); every program compiled on its own by rustc against the freshly built library, in both back-ends; WellFormed() of the specification predicts the verdict, the error must be located within the lines of the offending definition',
        'assumptions': ['rustc diagnostics (primary spans / macro expansion call sites) locate the error'],
    },
}
