"""Which drivers, model-checking configurations and clause families decide which property.
Pure configuration: no verdict is computed here."""

MC_CONFIGS = {
    'MC_Num': {'tla': 'MC_Num.tla', 'cfg': 'MC_Num.cfg', 'workers': 4, 'timeout': 300},
}

REGS3 = ['cat', 'fx', 'core']


def drv(name, regs=REGS3, bes=('f64', 'dec'), args=None):
    return [{'drv': name, 'reg': r, 'bes': list(bes), 'args': args or []} for r in regs]


PROPS = {
    'C01': {
        'mc': ['MC_Num'],
        'drivers': drv('c01'),
        'clauses': ['C01.'],
        'must_hit': ['C01.unit', 'C01.same', 'C01.equiv', 'C01.mag'],
        'nontrivial': ['C01.mag'],
        'rule': 'every type with a reference unit (catalogue, dimensionless amount, astronomical crate (f64), synthetic fixtures, dyadic model registry) x every ordered unit pair incl. the diagonal x structured + seeded random amounts; an event is non-trivial when the two units differ and the amount is in range (clause C01.mag evaluated)',
    },
    'C07': {
        'mc': [],
        'drivers': drv('units', regs=['cat']),
        'clauses': ['C07.'],
        'must_hit': ['C07.symbol', 'C07.name', 'C07.prefix', 'C07.scale', 'C07.ref_scale_one', 'C07.prefix_consistent'],
        'nontrivial': ['C07.scale'],
        'exhaustive': True,
        'rule': 'every unit of every predefined quantity (main crate in both back-ends, astronomical crate in f64) against spec/catalogue.json chained to the reference unit by TLC in exact arithmetic; non-trivial = unit with a scale checked against its definition',
        'assumptions': ['spec/catalogue.json (hand-written declared table) is the published definition'],
    },
    'C09': {
        'mc': [],
        'drivers': drv('units') + drv('lookup'),
        'clauses': ['C09.'],
        'must_hit': ['C09.iter_exact', 'C09.consts', 'C09.one_ref', 'C09.unit_from_symbol', 'C09.unit_from_scale', 'C09.as_qty', 'C09.from_symbol', 'C09.from_scale'],
        'nontrivial': ['C09.from_symbol', 'C09.from_scale', 'C09.iter_exact'],
        'rule': 'all units of all registered types (catalogue, astronomical, fixtures, model registry); look-up keys: every declared symbol, case-flipped / one-edit near misses, random strings; every declared scale, its neighbours and special values',
    },
}
