#!/usr/bin/env python3
"""Write MANIFEST.json from the property table (tools/props.py) and tools/manifest_texts.py."""
import json, os, sys
sys.path.insert(0, os.path.dirname(__file__))
from props import PROPS
from manifest_texts import TEXTS, NOT_APPLICABLE, NOTES

ROOT = os.path.dirname(os.path.dirname(os.path.abspath(__file__)))
ALL = [json.loads(l)['id'] for l in open(os.path.join(ROOT, 'properties.jsonl'))]
for pid in ALL:
    if pid not in PROPS and pid not in NOT_APPLICABLE:
        NOT_APPLICABLE[pid] = "check still under construction (planned in DESIGN.md section 7); not claimed until its TLA+ clauses and driver are registered"
checks = []
for pid in sorted(PROPS):
    t = dict(TEXTS[pid])
    extra = []
    mcs = [m for m in PROPS[pid].get('mc', [])]
    if mcs:
        extra.append("TLC model checking of the specification itself: %s (see DESIGN.md 13.1 and appendix C)." % ', '.join(mcs))
    if PROPS[pid].get('replay'):
        extra.append("Spec->impl: every distinct %s event of the TLA+ calculator machine (Calc.tla, all operation sequences of the bounded dyadic model, the property clauses checked as invariants by TLC) is replayed on the types the real macro generates from the same model registry, in both back-ends, and must reproduce the outcome computed by the specification's algorithm-level action (exact regime, tolerance 0)." % '/'.join(PROPS[pid]['replay']['kinds']))
    extra.append("If the conformance harness no longer compiles against the repository, an item-existence probe attributes the missing constant / constructor / operator form to the property that promises it (clause <prop>.item_exists).")
    t['level'] = t['level'] + ' ' + ' '.join(extra)
    checks.append({
        "property_id": pid,
        "quick_cmd": "./check %s --tier quick" % pid,
        "thorough_cmd": "./check %s --tier thorough" % pid,
        "evidence_file": "/verif/evidence/%s.json" % pid,
        "replay_cmd_template": "./check replay {path}",
        "engine": "tlc-trace-validation",
        "level_claimed": {"category": "model_checking", "text": t['level'], "design_ref": t.get('ref', 'DESIGN.md section 7')},
        "level_note": t['note'],
        "technique": t['technique'],
    })
m = {
    "version": 1,
    "setup_cmd": "./check setup",
    "hooks": {"guard": "quantities_verif", "enable": "no hooks are needed: the public API exposes the whole abstract state, events are logged by the external harness at each call's return (DESIGN.md section 10)",
              "baseline_off_cmd": "cd /repo && cargo test --workspace --no-fail-fast --offline", "source_commits": [], "add_only": True},
    "engines": [{"name": "tlc-trace-validation", "path": "/verif/check", "serves_properties": sorted(PROPS),
                 "kind_free_text": "explicit TLA+ specification (spec/*.tla) model-checked with TLC on small registries; traces recorded from the real code by a Rust harness (harness/) are validated by TLC against the same specification (Trace.tla); TLC-generated behaviours are replayed on macro-generated types"}],
    "checks": checks,
    "not_applicable": [{"property_id": k, "reason": v} for k, v in sorted(NOT_APPLICABLE.items()) if k not in PROPS],
    "notes": NOTES,
}
json.dump(m, open(os.path.join(ROOT, 'MANIFEST.json'), 'w'), indent=1)
print("MANIFEST.json:", len(checks), "checks;", len(m['not_applicable']), "not applicable")
