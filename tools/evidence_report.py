#!/usr/bin/env python3
"""Markdown table of what the last run of every check covered (from evidence/*.json)."""
import json, os, glob
ROOT = os.path.dirname(os.path.dirname(os.path.abspath(__file__)))
print('| property | tier | TLC model-checking runs (distinct states) | events judged by TLC | distinct non-trivial events | model events replayed on impl | traces | wall s |')
print('|---|---|---|---|---|---|---|---|')
for f in sorted(glob.glob(os.path.join(ROOT, 'evidence', 'C*.json'))):
    e = json.load(open(f))
    c = e['coverage']
    mc = ', '.join('%s (%d)' % (r['name'], r['distinct']) for r in c.get('model_checking_runs', [])) or '-'
    print('| %s | %s | %s | %d | %d | %d | %d | %.0f |' % (e['property_id'], e['tier'], mc, c.get('trace_events_judged_by_tlc', 0),
          c.get('distinct_nontrivial', 0), c.get('model_behaviours_replayed_on_impl', 0), c.get('traces_validated_against_impl', 0), e['wall_s']))
