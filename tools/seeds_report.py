#!/usr/bin/env python3
"""Markdown table of the seeded changes and which checks caught them (from seeded/*/meta.json)."""
import json, os, glob, re
ROOT = os.path.dirname(os.path.dirname(os.path.abspath(__file__)))
rows = []
def natkey(d):
    b = os.path.basename(d)
    a, k = b.split('-')
    return (a, int(k))


for d in sorted(glob.glob(os.path.join(ROOT, 'seeded', '*')), key=natkey):
    m = json.load(open(os.path.join(d, 'meta.json')))
    title = ''
    rp = os.path.join(d, 'README.md')
    if os.path.exists(rp):
        for l in open(rp, encoding='utf-8'):
            l = l.strip()
            if l.startswith('#'):
                title = re.sub(r'^#+\s*', '', l)
                title = re.sub(r'^(Seed(ed)?( change)?\s*\d*\s*[-—:(]*\s*)', '', title, flags=re.I).strip(' )')
                break
        if not title:
            # short READMEs without a heading (round 4): the line that names the mutation, else the first line
            lines = [l.strip() for l in open(rp, encoding='utf-8') if l.strip()]
            cand = [l for l in lines if re.search(r'mutation|->|becomes|instead of', l, re.I)]
            title = re.sub(r'[*`_]', '', (cand or lines or [''])[0]).lstrip('-# ').strip()
    det = []
    for p, r in sorted(m.get('detected_by', {}).items()):
        if r['exit'] == 1:
            det.append('%s: %s' % (p, ', '.join(r['clauses'][:4])))
        elif r['exit'] == 0:
            det.append('%s: not detected' % p)
        else:
            det.append('%s: tool error' % p)
    rows.append('| %s | %s | %s |' % (m['id'], title[:110].replace('|', '/'), '; '.join(det) or 'not run yet'))
print('| seeded change | what it does | caught by (quick tier) |')
print('|---|---|---|')
print('\n'.join(rows))
