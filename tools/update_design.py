#!/usr/bin/env python3
"""Refresh the generated tables in DESIGN.md (seeded changes, evidence)."""
import os, re, subprocess, sys
ROOT = os.path.dirname(os.path.dirname(os.path.abspath(__file__)))
p = os.path.join(ROOT, 'DESIGN.md')
s = open(p, encoding='utf-8').read()
for name, tool in (('SEEDS-TABLE', 'seeds_report.py'), ('EVIDENCE-TABLE', 'evidence_report.py')):
    out = subprocess.run([sys.executable, os.path.join(ROOT, 'tools', tool)], stdout=subprocess.PIPE, text=True).stdout
    s = re.sub(r'<!-- %s-BEGIN -->.*?<!-- %s-END -->' % (name, name), lambda m: '<!-- %s-BEGIN -->\n%s<!-- %s-END -->' % (name, out, name), s, flags=re.S)
open(p, 'w', encoding='utf-8').write(s)
