"""When the harness does not build against the repository, find out WHICH promised item is missing:
one tiny function per item (constant, constructor, operator instance in each borrow form, trait method ...),
all in one crate, one cargo check; failing functions are attributed to the property that promises the item.
The list of items is generated from the declared registry; the verdict 'this item must exist' is the
specification's (clause <prop>.item_exists in Macro.tla), judged by TLC like every other event."""
import os, json, sys
sys.path.insert(0, os.path.dirname(__file__))
import qv
import compile_probe as cp


def items_for(declared, crate_filter):
    dt = {t['T']: t for t in declared['types']}
    items = []   # (property, description, code)

    def ty(T):
        return cp.rust_type(T, dt)

    def uty(T):
        return 'quantities::One' if T == 'Amount' else ty(T) + 'Unit'
    for t in declared['types']:
        if t.get('crate') not in crate_filter:
            continue
        T = t['T']
        Q, U = ty(T), uty(T)
        mod = t['path']
        kind = 'ref' if not t.get('noref') else ('single' if len(t['units']) == 1 else 'noref')
        for u in t['units']:
            c = qv.const_of(u['w'])
            items.append(('C09', '%s: constant %s' % (T, c), 'pub fn f() -> %s { %s::%s }' % (U, mod, c)))
        items += [
            ('C08', '%s: Quantity::new' % T, 'pub fn f(a: AmountT, u: %s) -> %s { <%s as Quantity>::new(a, u) }' % (U, Q, Q)),
            ('C08', '%s: amount * unit' % T, 'pub fn f(a: AmountT, u: %s) -> %s { a * u }' % (U, Q)),
            ('C08', '%s: unit * amount' % T, 'pub fn f(a: AmountT, u: %s) -> %s { u * a }' % (U, Q)),
            ('C08', '%s: accessors' % T, 'pub fn f(q: %s) -> (AmountT, %s) { (Quantity::amount(&q), Quantity::unit(&q)) }' % (Q, U)),
            ('C08', '%s: number * value' % T, 'pub fn f(k: AmountT, q: %s) -> %s { k * q }' % (Q, Q)),
            ('C08', '%s: value * number' % T, 'pub fn f(k: AmountT, q: %s) -> %s { q * k }' % (Q, Q)),
            ('C08', '%s: value / number' % T, 'pub fn f(k: AmountT, q: %s) -> %s { q / k }' % (Q, Q)),
            ('C09', '%s: Unit::iter / from_symbol / name / symbol / si_prefix / as_qty' % T,
             'pub fn f(s: &str) -> Option<%s> { let _ = <%s as Unit>::iter().map(|u| (u.name(), u.symbol(), u.si_prefix(), u.as_qty())).count(); <%s as Unit>::from_symbol(s).or(<%s as Quantity>::unit_from_symbol(s)).or(<%s as Quantity>::iter_units().next()) }' % (U, U, U, Q, Q)),
            ('C15', '%s: Display of value and unit' % T, 'pub fn f(q: %s) -> String { format!("{} {:>8.2} {}", q, q, Quantity::unit(&q)) }' % (Q,)),
            ('C13', '%s: Rate with itself' % T, 'pub fn f(q: %s, p: %s) -> (%s, %s) { let r = Rate::<%s, %s>::from_qty_vals(q, p); let _ = format!("{}", r); let rr = r.reciprocal(); (r * p, q / rr.reciprocal()) }' % (Q, Q, Q, Q, Q, Q)),
        ]
        pc = 'C03' if kind == 'ref' else 'C10'
        items += [
            (pc, '%s: value + value' % T, 'pub fn f(a: %s, b: %s) -> %s { a + b }' % (Q, Q, Q)),
            (pc, '%s: value - value' % T, 'pub fn f(a: %s, b: %s) -> %s { a - b }' % (Q, Q, Q)),
            (pc, '%s: value / value' % T, 'pub fn f(a: %s, b: %s) -> AmountT { a / b }' % (Q, Q)),
        ]
        if kind != 'single':
            pc = 'C02' if kind == 'ref' else 'C10'
            items.append((pc, '%s: comparisons' % T, 'pub fn f(a: %s, b: %s) -> (bool, bool, bool, bool, bool, bool, Option<Ordering>) { (a == b, a != b, a < b, a <= b, a > b, a >= b, PartialOrd::partial_cmp(&a, &b)) }' % (Q, Q)))
        if kind == 'ref':
            items += [
                ('C01', '%s: convert / equiv_amount' % T, 'pub fn f(q: %s, u: %s) -> (%s, AmountT) { (HasRefUnit::convert(&q, u), HasRefUnit::equiv_amount(&q, u)) }' % (Q, U, Q)),
                ('C09', '%s: REF_UNIT / scale / is_ref_unit / from_scale' % T, 'pub fn f(a: AmountT) -> (bool, AmountT, Option<%s>, Option<%s>) { let r = <%s as HasRefUnit>::REF_UNIT; let r2 = <%s as LinearScaledUnit>::REF_UNIT; (r.is_ref_unit() && r == r2, r.scale(), <%s as LinearScaledUnit>::from_scale(a), <%s as HasRefUnit>::unit_from_scale(a)) }' % (U, U, Q, U, U, Q)),
                ('C05', '%s: _fit' % T, 'pub fn f(a: AmountT) -> %s { <%s as HasRefUnit>::_fit(a) }' % (Q, Q)),
            ]
        dv = t.get('derive')
        if dv:
            a, b, R = dv['l'], dv['r'], T
            if dv['op'] == '*':
                inst = [('*', a, b, R), ('*', b, a, R), ('/', R, b, a), ('/', R, a, b)]
            else:
                inst = [('/', a, b, R), ('*', R, b, a), ('*', b, R, a), ('/', a, R, b)]
            seen = set()
            for (op, l, r, res) in inst:
                if (op, l, r) in seen:
                    continue
                seen.add((op, l, r))
                for form, expr in (('owned', 'a %s b'), ('&a', '&a %s b'), ('&b', 'a %s &b'), ('&a &b', '&a %s &b')):
                    items.append(('C04', '%s %s %s -> %s (%s)' % (l, op, r, res, form),
                                  'pub fn f(a: %s, b: %s) -> %s { %s }' % (ty(l), ty(r), ty(res), expr % op)))
    return items


def serde_items(declared, dt):
    """C17: with serialisation support enabled every predefined quantity and unit type serialises and deserialises"""
    items = []
    raw = json.load(open(os.path.join(os.path.dirname(os.path.dirname(os.path.abspath(__file__))), 'spec', 'catalogue.json'), encoding='utf-8'))
    for T in raw.get('serde_types', []):
        Q = cp.rust_type(T, dt)
        U = Q + 'Unit'
        items += [
            ('C17', '%s: Serialize' % T, 'pub fn f(q: %s) -> String { serde_json::to_string(&q).unwrap() }' % Q),
            ('C17', '%s: Deserialize' % T, 'pub fn f(s: &str) -> %s { serde_json::from_str(s).unwrap() }' % Q),
            ('C17', '%sUnit: Serialize' % T, 'pub fn f(u: %s) -> String { serde_json::to_string(&u).unwrap() }' % U),
            ('C17', '%sUnit: Deserialize' % T, 'pub fn f(s: &str) -> %s { serde_json::from_str(s).unwrap() }' % U),
        ]
    return items


def run_serde(ctx, be, declared_path):
    """item probe of the serde configuration (features doc + serde [+ fpdec]); if the library itself does not build
    in this configuration, every serde item is missing"""
    declared = qv.load_declared(declared_path)
    dt = {t['T']: t for t in declared['types']}
    items = serde_items(declared, dt)
    head = ['#![allow(unused, dead_code, non_snake_case)]', 'use quantities::prelude::*;']
    lines = list(head)
    index = {}
    for (prop, desc, code) in items:
        ln = len(lines) + 1
        lines.append('pub mod m%d { use super::*; %s }' % (ln, code))
        index[ln] = {'kind': 'item', 'prop': prop, 'item': desc, 'code': code}
    d = os.path.join(ctx['rundir'], 'itemprobe_serde_%s' % be)
    cp.write_crate(d, ctx['repo'], be, '\n'.join(lines) + '\n', astro=False, extra_features=('serde',),
                   extra_deps=('serde = { version = "1", features = ["derive"] }', 'serde_json = { version = "1.0", features = ["float_roundtrip"] }'))
    rc, diags, dep_failed, err = cp.cargo_check(d, os.path.join(ctx['work'], 'target_probe_serde'))
    if dep_failed:
        evs = []
        for ln, prog in sorted(index.items()):
            e = dict(prog)
            e.update({'line': ln, 'verdict': 'err', 'codes': ['library does not build with serialisation support (%s): %s' % (be, dep_failed[1][:120])]})
            evs.append(e)
        return evs
    evs, stray = cp.verdicts(index, diags)
    return evs


def run(ctx, be, declared_path, crate_filter, astro):
    declared = qv.load_declared(declared_path)
    items = items_for(declared, crate_filter)
    head = ['#![allow(unused, dead_code, non_snake_case)]', 'use quantities::prelude::*;', 'use quantities::{Quantity, Unit, HasRefUnit, LinearScaledUnit, Rate, AmountT};', 'use core::cmp::Ordering;']
    lines = list(head)
    index = {}
    for (prop, desc, code) in items:
        ln = len(lines) + 1
        lines.append('pub mod m%d { use super::*; %s }' % (ln, code))
        index[ln] = {'kind': 'item', 'prop': prop, 'item': desc, 'code': code}
    d = os.path.join(ctx['rundir'], 'itemprobe_%s' % be)
    cp.write_crate(d, ctx['repo'], be, '\n'.join(lines) + '\n', astro=astro)
    rc, diags, dep_failed, err = cp.cargo_check(d, os.path.join(ctx['work'], 'target_probe'))
    if dep_failed:
        return None, 'the repository itself does not build (%s): %s' % (be, dep_failed[1][:300])
    evs, stray = cp.verdicts(index, diags)
    return evs, None
