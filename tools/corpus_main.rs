// Fixed operation corpus over Mass, Length, Duration: prints every result with its exact bits.
// Compiled in a minimal and in the full feature configuration; the two outputs must be identical.
use quantities::prelude::*;
use quantities::{duration::*, length::*, mass::*, temperature::*, Converter};

fn show(a: AmountT) -> String {
    format!("{:?}", a)
}

// a panic (e.g. the decimal back-end leaving its range) is an outcome like any other: it must be the same outcome in
// every configuration
fn guard<F: FnOnce() -> String + std::panic::UnwindSafe>(f: F) -> String {
    std::panic::catch_unwind(f).unwrap_or_else(|_| "panic".to_string())
}

macro_rules! corpus {
    ($Q:ty, $U:ty, $name:expr) => {{
        let us: Vec<$U> = <$U as Unit>::iter().collect();
        let amounts: Vec<AmountT> = vec![Amnt!(0.0), Amnt!(1.0), Amnt!(2.5), Amnt!(-7.25), Amnt!(1234.5678), Amnt!(0.001), Amnt!(0.0) * Amnt!(-1.0)];
        for (i, u) in us.iter().enumerate() {
            println!("{} unit {} {:?} {} {} {}", $name, i, u, u.name(), u.symbol(), show(u.scale()));
            println!("{} asqty {} {}", $name, i, { let u = *u; guard(move || { let q = u.as_qty(); format!("{} {:?}", show(q.amount()), q.unit()) }) });
            for (j, v) in us.iter().enumerate() {
                for a in &amounts {
                    let x: $Q = *a * *u;
                    let y: $Q = Amnt!(3.0) * *v;
                    let (a, u, v) = (*a, *u, *v);
                    println!("{} conv {} {} {} -> {}", $name, i, j, show(a), guard(move || { let c = x.convert(v); format!("{} {:?}", show(c.amount()), c.unit()) }));
                    println!("{} cmp {} {} {} {}", $name, i, j, show(a), guard(move || format!("{:?} {} {}", PartialOrd::partial_cmp(&x, &y), x == y, x < y)));
                    println!("{} add {} {} {} {}", $name, i, j, show(a), guard(move || show((x + y).amount())));
                    println!("{} sub {} {} {} {}", $name, i, j, show(a), guard(move || show((x - y).amount())));
                    println!("{} div {} {} {} {}", $name, i, j, show(a), guard(move || show(x / y)));
                    println!("{} fmt {} {} {} {}", $name, i, j, show(a), guard(move || format!("[{}] [{:>12.3}] [{:+}] [{:+010.2}] [{:*^14}]", x, x, x, x, x)));
                    println!("{} rate {} {} {} {}", $name, i, j, show(a), guard(move || {
                        let r = quantities::Rate::<$Q, $Q>::from_qty_vals(x, y);
                        let z = r * y;
                        format!("{} {:?} [{}]", show(z.amount()), z.unit(), r)
                    }));
                    let _ = u;
                }
            }
        }
        println!("{} fit {}", $name, guard(|| { let f = <$Q as HasRefUnit>::_fit(Amnt!(1234.5)); format!("{} {:?}", show(f.amount()), f.unit()) }));
    }};
}

fn main() {
    std::panic::set_hook(Box::new(|_| {}));
    corpus!(Mass, MassUnit, "Mass");
    corpus!(Length, LengthUnit, "Length");
    corpus!(Duration, DurationUnit, "Duration");
    // table-driven conversions (affine maps)
    let tus: Vec<TemperatureUnit> = TemperatureUnit::iter().collect();
    let temps: Vec<AmountT> = vec![Amnt!(0.0), Amnt!(-17.3), Amnt!(21.5), Amnt!(293.15), Amnt!(-40.0), Amnt!(100.0), Amnt!(36.6), Amnt!(1234.5678), Amnt!(0.1), Amnt!(-273.15), Amnt!(451.0), Amnt!(98.6), Amnt!(-0.7), Amnt!(1e-3), Amnt!(77.7), Amnt!(5778.0)];
    for (i, u) in tus.iter().enumerate() {
        for (j, v) in tus.iter().enumerate() {
            for a in &temps {
                let t: Temperature = *a * *u;
                match TEMPERATURE_CONVERTER.convert(&t, *v) {
                    Some(r) => println!("Temperature conv {} {} {} -> {} {:?}", i, j, show(*a), show(r.amount()), r.unit()),
                    None => println!("Temperature conv {} {} {} -> none", i, j, show(*a)),
                }
            }
        }
    }
}
