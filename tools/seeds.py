#!/usr/bin/env python3
"""Book-keeping for seeded changes (realistic breakages written by independent sub-agents).
  seeds.py confirm <Cxx> <k> <features>     confirm in the scratch worktree /tmp/seed_<Cxx>: suite passes with the
                                            change, demo fails with it and passes without it; then import into
                                            /verif/seeded/<Cxx>-<k>/ (patch.diff, demo.rs, meta.json)
  seeds.py run <seed-id> <prop> [<prop>..]  apply the patch to /repo, run the quick checks, undo it, record who caught it
"""
import sys, os, json, subprocess, shutil, re, time

ROOT = os.path.dirname(os.path.dirname(os.path.abspath(__file__)))
SEEDED = os.path.join(ROOT, 'seeded')


def sh(cmd, cwd=None, timeout=3600):
    p = subprocess.run(cmd, cwd=cwd, shell=isinstance(cmd, str), stdout=subprocess.PIPE, stderr=subprocess.STDOUT, text=True, errors='replace', timeout=timeout)
    return p.returncode, p.stdout


def suite(wt):
    rc, out = sh('cargo test --workspace --no-fail-fast --offline 2>&1', cwd=wt)
    failed = sorted(set(re.findall(r'^test (\S+) \.\.\. FAILED', out, re.M)))
    passed = len(re.findall(r'^test .* \.\.\. ok', out, re.M))
    return passed, failed


def demo(wt, k, feats):
    shd = os.path.join(wt, '_seed', 'demo_%s.sh' % k)
    if feats == 'sh' and os.path.exists(shd):
        rc, out = sh('bash %s %s 2>&1' % (shd, wt), cwd=wt)
        return rc, [('exit', str(rc), '')], out[-1500:]
    shutil.copy(os.path.join(wt, '_seed', 'demo_%s.rs' % k), os.path.join(wt, 'tests', 'seed_demo_%s.rs' % k))
    try:
        rc, out = sh('cargo test --offline --features %s --test seed_demo_%s 2>&1' % (feats, k), cwd=wt)
        m = re.findall(r'test result: (\w+)\. (\d+) passed; (\d+) failed', out)
        return rc, m, out[-1500:]
    finally:
        os.remove(os.path.join(wt, 'tests', 'seed_demo_%s.rs' % k))


def confirm(prop, k, feats, rnd=1, offset=None):
    wt = ('/tmp/seed_' if rnd == 1 else '/tmp/seed%d_' % rnd) + prop
    patch = os.path.join(wt, '_seed', 'patch_%s.diff' % k)
    sh('git checkout -- . ', cwd=wt)
    rc0, m0, _ = demo(wt, k, feats)
    rc, out = sh(['git', 'apply', patch], cwd=wt)
    if rc != 0:
        print('patch does not apply', out)
        return 1
    try:
        passed, failed = suite(wt)
        rc1, m1, tail1 = demo(wt, k, feats)
    finally:
        sh('git checkout -- . ', cwd=wt)
    ok_suite = passed >= 65 and failed == ['macro_attr_tests::ui']
    print('suite with change: %d passed, failed=%s' % (passed, failed))
    print('demo clean: rc=%s %s ; with change: rc=%s %s' % (rc0, m0, rc1, m1))
    if not (ok_suite and rc0 == 0 and rc1 != 0):
        print('NOT CONFIRMED')
        return 1
    sid = '%s-%s' % (prop, int(k) + (2 * (rnd - 1) if offset is None else offset))
    d = os.path.join(SEEDED, sid)
    os.makedirs(d, exist_ok=True)
    shutil.copy(patch, os.path.join(d, 'patch.diff'))
    for ext in ('rs', 'sh'):
        if os.path.exists(os.path.join(wt, '_seed', 'demo_%s.%s' % (k, ext))):
            shutil.copy(os.path.join(wt, '_seed', 'demo_%s.%s' % (k, ext)), os.path.join(d, 'demo.' + ext))
    readme = os.path.join(wt, '_seed', 'README_%s.md' % k)
    if os.path.exists(readme):
        shutil.copy(readme, os.path.join(d, 'README.md'))
    prop_text = open(os.path.join(wt, 'PROPERTY.txt')).read().split('\n')[0]
    meta = {'id': sid, 'breaks_property': prop, 'property': prop_text, 'origin': 'independent sub-agent given only the property text and a scratch worktree',
            'demo_cmd': 'cp demo.rs <repo>/tests/seed_demo.rs && cargo test --offline --features %s --test seed_demo' % feats,
            'confirmed': {'when': time.strftime('%Y-%m-%d %H:%M'), 'suite_with_change': {'passed': passed, 'failed': failed},
                          'demo_clean': m0, 'demo_with_change': m1},
            'needs_to_manifest': '(see README.md)', 'detected_by': {}}
    json.dump(meta, open(os.path.join(d, 'meta.json'), 'w'), indent=1)
    print('CONFIRMED and imported as', d)
    return 0


SCRATCH = os.environ.get('SEEDRUN_DIR', '/tmp/seedrun')


def run(sid, props):
    """Run the quick checks against a scratch worktree of /repo's HEAD with the seeded patch applied
    (VERIF_REPO=<scratch>; equivalent to applying the patch to /repo, but leaves /repo usable meanwhile)."""
    d = os.path.join(SEEDED, sid)
    meta = json.load(open(os.path.join(d, 'meta.json')))
    if not os.path.exists(SCRATCH):
        rc, out = sh(['git', '-C', '/repo', 'worktree', 'add', '--detach', SCRATCH, 'HEAD'])
        if rc != 0:
            print(out)
            return 2
    sh(['git', '-C', SCRATCH, 'checkout', '--detach', '-q', sh(['git', '-C', '/repo', 'rev-parse', 'HEAD'])[1].strip()])
    sh(['git', '-C', SCRATCH, 'checkout', '--', '.'])
    rc, out = sh(['git', '-C', SCRATCH, 'apply', os.path.join(d, 'patch.diff')])
    if rc != 0:
        print('patch does not apply', out)
        return 2
    res = {}
    env = dict(os.environ)
    env['VERIF_REPO'] = SCRATCH
    try:
        for p in props:
            t0 = time.time()
            pr = subprocess.run([os.path.join(ROOT, 'check'), p, '--tier', 'quick'], cwd=ROOT, env=env, stdout=subprocess.PIPE, stderr=subprocess.STDOUT, text=True, errors='replace', timeout=7200)
            rc, out = pr.returncode, pr.stdout
            viol = [l for l in out.splitlines() if l.startswith('VIOLATION')]
            clauses = sorted(set(re.findall(r'clause (\S+) rejected', out)))
            more = re.findall(r'and (\d+) more rejected', out)
            res[p] = {'exit': rc, 'violation_lines': len(viol), 'clauses': clauses, 'more': more, 'wall_s': round(time.time() - t0)}
            if rc == 2:
                res[p]['tool_error'] = out[-800:]
            print(sid, p, res[p], flush=True)
    finally:
        sh(['git', '-C', SCRATCH, 'checkout', '--', '.'])
    meta['detected_by'].update(res)
    meta['detected'] = any(v['exit'] == 1 for v in meta['detected_by'].values())
    meta['ran'] = 'VERIF_REPO=<scratch worktree of /repo HEAD + patch.diff> ./check <prop> --tier quick'
    json.dump(meta, open(os.path.join(d, 'meta.json'), 'w'), indent=1)
    return 0


if __name__ == '__main__':
    if sys.argv[1] == 'confirm':
        sys.exit(confirm(sys.argv[2], sys.argv[3], sys.argv[4], int(sys.argv[5]) if len(sys.argv) > 5 else 1, int(sys.argv[6]) if len(sys.argv) > 6 else None))
    elif sys.argv[1] == 'run':
        sys.exit(run(sys.argv[2], sys.argv[3:]))
