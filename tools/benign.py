#!/usr/bin/env python3
"""Property-PRESERVING changes (the opposite of seeded/): realistic commits after which every listed property
still holds.  The checks must stay silent on them.
  benign.py verify <name>               the repository's own suite still passes with the change (scratch worktree)
  benign.py run <name|all> [props...]   quick checks against <scratch worktree + patch> (VERIF_REPO); records the
                                        result in benign/<name>/meta.json; any VIOLATION is a false alarm to be fixed
"""
import sys, os, json, subprocess, re, time
ROOT = os.path.dirname(os.path.dirname(os.path.abspath(__file__)))
BEN = os.path.join(ROOT, 'benign')
SCRATCH = os.environ.get('BENIGNRUN_DIR', '/tmp/benignrun')
ALL = ['C%02d' % i for i in range(1, 20)]


def sh(cmd, cwd=None, timeout=7200, env=None):
    p = subprocess.run(cmd, cwd=cwd, shell=isinstance(cmd, str), stdout=subprocess.PIPE, stderr=subprocess.STDOUT, text=True, errors='replace', timeout=timeout, env=env)
    return p.returncode, p.stdout


def prepare(names):
    if not os.path.exists(SCRATCH):
        rc, out = sh(['git', '-C', '/repo', 'worktree', 'add', '--detach', SCRATCH, 'HEAD'])
        if rc != 0:
            raise SystemExit(out)
    head = sh(['git', '-C', '/repo', 'rev-parse', 'HEAD'])[1].strip()
    sh(['git', '-C', SCRATCH, 'checkout', '--detach', '-q', head])
    sh('git checkout -- . && git clean -fdq src qty-macros astronimical_quantities', cwd=SCRATCH)
    for n in names:
        rc, out = sh(['git', '-C', SCRATCH, 'apply', os.path.join(BEN, n, 'patch.diff')])
        if rc != 0:
            raise SystemExit('patch %s does not apply: %s' % (n, out))


def cleanup():
    sh('git checkout -- . && git clean -fdq src qty-macros astronimical_quantities', cwd=SCRATCH)


def verify(name):
    prepare([name])
    res = {}
    try:
        for label, cmd in (('workspace', 'cargo test --workspace --no-fail-fast --offline'),
                           ('doc', 'cargo test --no-fail-fast --offline --features doc'),
                           ('doc,fpdec,serde', 'cargo test --no-fail-fast --offline --features doc,fpdec,serde')):
            rc, out = sh(cmd + ' 2>&1', cwd=SCRATCH)
            failed = sorted(set(re.findall(r'^test (\S+) \.\.\. FAILED', out, re.M)))
            passed = len(re.findall(r'^test .* \.\.\. ok', out, re.M))
            res[label] = {'passed': passed, 'failed': failed}
            print(name, label, res[label], flush=True)
            if 'could not compile' in out:
                print(out[-1500:])
    finally:
        cleanup()
    ok = all(v['failed'] == ['macro_attr_tests::ui'] and v['passed'] >= 65 for v in res.values())
    mp = os.path.join(BEN, name, 'meta.json')
    meta = json.load(open(mp)) if os.path.exists(mp) else {'id': name}
    meta['suite_with_change'] = res
    meta['suite_ok'] = ok
    json.dump(meta, open(mp, 'w'), indent=1)
    return 0 if ok else 1


def run(name, props):
    names = sorted(d for d in os.listdir(BEN) if os.path.isdir(os.path.join(BEN, d))) if name == 'all' else name.split(',')
    prepare(names)
    env = dict(os.environ)
    env['VERIF_REPO'] = SCRATCH
    res = {}
    try:
        for p in props or ALL:
            t0 = time.time()
            rc, out = sh([os.path.join(ROOT, 'check'), p, '--tier', 'quick'], cwd=ROOT, env=env)
            viol = [l for l in out.splitlines() if l.startswith('VIOLATION')]
            clauses = sorted(set(re.findall(r'clause (\S+) rejected', out)))
            notes = [l for l in out.splitlines() if l.startswith('NOTE:')]
            res[p] = {'exit': rc, 'violation_lines': len(viol), 'clauses': clauses, 'notes': notes[:5], 'wall_s': round(time.time() - t0)}
            if rc == 2:
                res[p]['tool_error'] = out[-800:]
            print(name, p, res[p], flush=True)
    finally:
        cleanup()
    for n in names:
        mp = os.path.join(BEN, n, 'meta.json')
        meta = json.load(open(mp)) if os.path.exists(mp) else {'id': n}
        key = 'checks_combined' if len(names) > 1 else 'checks'
        meta.setdefault(key, {}).update(res)
        meta['silent'] = all(v['exit'] == 0 for k in ('checks', 'checks_combined') for v in meta.get(k, {}).values())
        json.dump(meta, open(mp, 'w'), indent=1)
    return 0 if all(v['exit'] == 0 for v in res.values()) else 1


if __name__ == '__main__':
    if sys.argv[1] == 'verify':
        sys.exit(verify(sys.argv[2]))
    sys.exit(run(sys.argv[2], sys.argv[3:]))
