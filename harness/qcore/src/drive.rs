//! Drivers: enumerate inputs, call the library through `ops`, write one JSON event per call.
//! Input generation only — whether an outcome is acceptable is decided by TLC on the specification.
use crate::fmtgen::{Spec, ALIGNS, FILLS};
use crate::num::*;
use crate::ops::*;
use crate::Registry;
use quantities::AmountT;
use serde_json::{json, Value};
use std::io::Write;

pub struct Out {
    w: std::io::BufWriter<std::fs::File>,
    pub n: usize,
}
/// Number of operations completed so far (one per recorded or skipped event): read by the watchdog.
pub static PROGRESS: std::sync::atomic::AtomicU64 = std::sync::atomic::AtomicU64::new(0);

/// CPU seconds (user + system) used by this process so far (Linux /proc; 0 if unavailable)
fn cpu_seconds() -> f64 {
    let s = std::fs::read_to_string("/proc/self/stat").unwrap_or_default();
    let rest = s.rsplit(')').next().unwrap_or("");
    let f: Vec<&str> = rest.split_whitespace().collect();
    if f.len() > 12 {
        let t: f64 = f[11].parse::<f64>().unwrap_or(0.0) + f[12].parse::<f64>().unwrap_or(0.0);
        t / 100.0
    } else {
        0.0
    }
}

/// Watchdog against operations of the code under test that never return: if the process burns `limit` CPU seconds
/// without completing a single further operation, say so and abort (the orchestrator reports the abort).  CPU time,
/// not wall time: a starved process does not trip it.
pub fn start_watchdog(limit: f64) {
    std::thread::spawn(move || {
        let mut last = PROGRESS.load(std::sync::atomic::Ordering::Relaxed);
        let mut cpu_at_last = cpu_seconds();
        loop {
            std::thread::sleep(std::time::Duration::from_secs(2));
            let now = PROGRESS.load(std::sync::atomic::Ordering::Relaxed);
            if now != last {
                last = now;
                cpu_at_last = cpu_seconds();
            } else if cpu_seconds() - cpu_at_last > limit {
                eprintln!("WATCHDOG: the operation after event {} has used more than {} CPU seconds without returning (it does not terminate)", now, limit);
                std::process::abort();
            }
        }
    });
}

impl Out {
    pub fn new(path: &str) -> Self {
        Out { w: std::io::BufWriter::new(std::fs::File::create(path).expect("create trace")), n: 0 }
    }
    pub fn ev(&mut self, kind: &str, mut body: Value) {
        PROGRESS.fetch_add(1, std::sync::atomic::Ordering::Relaxed);
        if body.is_null() {
            return;
        }
        body["ev"] = json!(kind);
        denull(&mut body);
        serde_json::to_writer(&mut self.w, &body).unwrap();
        self.w.write_all(b"\n").unwrap();
        self.n += 1;
    }
    pub fn finish(mut self) -> usize {
        self.w.flush().unwrap();
        self.n
    }
}

pub struct Cfg {
    pub seed: u64,
    pub thorough: bool,
}

/// Observed registry: everything the code reports about its types and units.
pub fn dump(reg: &Registry) -> Value {
    let mut types = serde_json::Map::new();
    let mut order = vec![];
    for t in &reg.types {
        let mut units = vec![];
        for u in 0..t.n_units() {
            units.push(t.unit_info(u));
        }
        let mut ti = t.type_info();
        ti["units"] = Value::Array(units);
        ti["consts"] = t.consts();
        order.push(json!(t.tname()));
        types.insert(t.tname().to_string(), ti);
    }
    let mut d = json!({"be": BE, "registry": reg.id, "order": order, "types": types});
    denull(&mut d);
    d
}

pub fn unit_events(reg: &Registry, out: &mut Out) {
    for t in &reg.types {
        let mut ti = t.type_info();
        ti["consts"] = t.consts();
        let ids: Vec<String> = (0..t.n_units()).map(|u| t.unit_id(u)).collect();
        ti["iter"] = json!(ids);
        out.ev("Type", ti);
        for u in 0..t.n_units() {
            out.ev("Unit", t.unit_info(u));
        }
    }
}

fn safe<T>(f: impl FnOnce() -> T) -> Option<T> {
    guard(f).ok()
}

/// neighbours of an amount in its own type
#[cfg(not(feature = "dec"))]
pub fn neighbours(x: AmountT) -> (AmountT, AmountT) {
    f64_neighbours(x)
}
#[cfg(feature = "dec")]
pub fn neighbours(x: AmountT) -> (AmountT, AmountT) {
    let d = AmountT::new_raw(1, 18);
    (safe(|| x - d).unwrap_or(x), safe(|| x + d).unwrap_or(x))
}

/// choose `k` elements of `v` starting at a rotating offset (so that across all unit pairs every element is used)
fn rotate<T: Clone>(v: &[T], start: usize, k: usize) -> Vec<T> {
    if v.is_empty() {
        return vec![];
    }
    (0..k.min(v.len())).map(|i| v[(start + i) % v.len()].clone()).collect()
}

/// amounts for a unit pair (from -> to): structured values, pre-images of round targets, random ones
fn amounts_for(t: &dyn QtyOps, from: usize, to: usize, cfg: &Cfg, rng: &mut Rng, salt: usize) -> Vec<AmountT> {
    let base = base_amounts();
    let mut v = if cfg.thorough { base.clone() } else { rotate(&base, salt * 3, 4) };
    if let (Some(sf), Some(st)) = (t.scale(from), t.scale(to)) {
        let ks: &[i64] = if cfg.thorough { &[1, 3, 12, 100] } else { &[3] };
        for k in ks {
            if let Some(x) = safe(|| small_int(*k) * st / sf) {
                v.push(x);
            }
        }
    }
    for _ in 0..(if cfg.thorough { 8 } else { 2 }) {
        v.push(rnd_amount(rng, -20, 40));
    }
    // binary floating point: amounts near the ends of the range, where an intermediate "amount in reference units"
    // is no longer representable although operand and result are
    #[cfg(not(feature = "dec"))]
    if salt % 3 == 0 || cfg.thorough {
        v.extend([3e297, -2.5e299, 7e-298]);
    }
    v
}

pub fn c01_convert(reg: &Registry, cfg: &Cfg, out: &mut Out) {
    let mut rng = Rng::new(cfg.seed ^ 0xC01);
    let mut salt = cfg.seed as usize;
    for t in &reg.types {
        if t.kind() != "ref" {
            continue;
        }
        let n = t.n_units();
        for from in 0..n {
            for to in 0..n {
                salt += 1;
                for a in amounts_for(t.as_ref(), from, to, cfg, &mut rng, salt) {
                    out.ev("Convert", t.convert(a, from, to));
                }
            }
        }
    }
}

/// pairs of amounts (a in unit ua, b in unit ub) built to denote the same, neighbouring and clearly
/// separated physical magnitudes
fn amount_pairs(t: &dyn QtyOps, ua: usize, ub: usize, cfg: &Cfg, rng: &mut Rng, salt: usize) -> Vec<(AmountT, AmountT)> {
    let mut v: Vec<(AmountT, AmountT)> = vec![];
    let base = base_amounts();
    if let (Some(sa), Some(sb)) = (t.scale(ua), t.scale(ub)) {
        let ks: Vec<i64> = if cfg.thorough { vec![1, 3, 7, 12, 60, 1000] } else { rotate(&[1i64, 3, 7, 12, 60, 1000], salt, 1) };
        // the same constructions with a tiny and a huge common factor (products of the two amounts under- or overflow)
        let mut kks: Vec<AmountT> = ks.iter().map(|k| small_int(*k)).collect();
        if salt % 4 == 0 || cfg.thorough {
            #[cfg(feature = "dec")]
            kks.extend([from_parts_dec(false, 3, -10), from_parts_dec(false, 7, 9)]);
            #[cfg(not(feature = "dec"))]
            kks.extend([3e-170, 7e160, 3e-10, 3e296, 7e-297]);
        }
        for kk in kks {
            // equal by construction (in exact arithmetic): a = k*sb, b = k*sa ; a = k*(sb/sa), b = k ; a = k, b = k*(sa/sb)
            let cands = [
                safe(|| (kk * sb, kk * sa)),
                safe(|| (kk * (sb / sa), kk)),
                safe(|| (kk, kk * (sa / sb))),
            ];
            for c in cands.iter().flatten() {
                let (a, b) = *c;
                v.push((a, b));
                let (lo, hi) = neighbours(b);
                v.push((a, lo));
                v.push((a, hi));
                if cfg.thorough {
                    let (lo, hi) = neighbours(a);
                    v.push((lo, b));
                    v.push((hi, b));
                    v.push((-a, -b));
                }
            }
        }
        // clearly separated and mixed signs
        let some = if cfg.thorough { rotate(&base, salt, 8) } else { rotate(&base, salt, 2) };
        for a in some {
            if let Some(b) = safe(|| a * sa / sb) {
                if let Some(b2) = safe(|| b + b / small_int(1000)) {
                    v.push((a, b2));
                }
                if let Some(b3) = safe(|| b - b / small_int(1000)) {
                    v.push((a, b3));
                }
                v.push((a, -b));
                // separated by 1e-10 relative: far beyond rounding, far below anything "visibly" different
                if let Some(b4) = safe(|| b + b / from_parts_dec(false, 1, 10)) {
                    v.push((a, b4));
                    v.push((b4, a));
                }
            }
        }
    } else {
        // no reference unit: plain pairs, identical amounts, and amounts that differ in the last place only
        for a in rotate(&base, salt, if cfg.thorough { 8 } else { 3 }) {
            for b in rotate(&base, salt + 5, if cfg.thorough { 6 } else { 2 }) {
                v.push((a, b));
            }
            v.push((a, a));
            let (lo, hi) = neighbours(a);
            v.push((a, hi));
            v.push((lo, a));
        }
        let tiny = from_parts_dec(false, 1, -17);
        v.push((tiny, from_parts_dec(false, 3, -17)));
        v.push((tiny, zero()));
    }
    // numerically equal raw amounts in (possibly) different units
    let same = base[1 + (salt * 5) % (base.len() - 1)];
    v.push((same, same));
    v.push((zero(), zero()));
    // a zero on one side only (the sum must still carry the left operand's unit, comparisons the right sign)
    let nz = base[1 + salt % (base.len() - 1)];
    v.push((zero(), nz));
    v.push((nz, zero()));
    if cfg.thorough {
        v.push((zero(), -nz));
        v.push((-nz, zero()));
    }
    for _ in 0..(if cfg.thorough { 6 } else { 1 }) {
        v.push((rnd_amount(rng, -10, 30), rnd_amount(rng, -10, 30)));
    }
    v
}

pub fn c02_cmp(reg: &Registry, cfg: &Cfg, out: &mut Out, noref: bool) {
    let mut rng = Rng::new(cfg.seed ^ 0xC02);
    let mut salt = cfg.seed as usize;
    for t in &reg.types {
        let isref = t.kind() == "ref";
        if isref == noref || t.kind() == "single" {
            continue;
        }
        let n = t.n_units();
        for ua in 0..n {
            for ub in 0..n {
                salt += 1;
                for (a, b) in amount_pairs(t.as_ref(), ua, ub, cfg, &mut rng, salt) {
                    out.ev("Cmp", t.cmp(a, ua, b, ub));
                }
            }
        }
        #[cfg(not(feature = "dec"))]
        {
            // NaN / infinities: only the internal-consistency and same-unit clauses say anything here
            for (a, b) in [(f64::NAN, 1.0), (1.0, f64::NAN), (f64::NAN, f64::NAN), (f64::INFINITY, 1.0), (f64::NEG_INFINITY, f64::INFINITY), (0.0, -0.0),
                           (f64::INFINITY, f64::INFINITY), (f64::NEG_INFINITY, f64::NEG_INFINITY), (f64::MAX, f64::MAX), (5e-324, 5e-324)] {
                out.ev("Cmp", t.cmp(a, 0, b, n - 1));
                out.ev("Cmp", t.cmp(a, 0, b, 0));
            }
        }
    }
}

pub fn c03_arith(reg: &Registry, cfg: &Cfg, out: &mut Out, noref: bool) {
    let mut rng = Rng::new(cfg.seed ^ 0xC03);
    let mut salt = cfg.seed as usize;
    for t in &reg.types {
        let isref = t.kind() == "ref";
        if isref == noref {
            continue;
        }
        let n = t.n_units();
        for ua in 0..n {
            for ub in 0..n {
                salt += 1;
                let mut pairs = amount_pairs(t.as_ref(), ua, ub, cfg, &mut rng, salt);
                if !cfg.thorough {
                    pairs = rotate(&pairs, salt, 5);
                }
                for (i, (a, b)) in pairs.into_iter().enumerate() {
                    let ops: &[&str] = if cfg.thorough { &["add", "sub", "div"] } else { &[["add", "sub", "div"][(salt + i) % 3]] };
                    for op in ops {
                        out.ev("Arith", t.arith(op, a, ua, b, ub));
                    }
                }
            }
        }
    }
}

pub fn c08_new_scalar(reg: &Registry, cfg: &Cfg, out: &mut Out) {
    let mut rng = Rng::new(cfg.seed ^ 0xC08);
    let mut amounts = base_amounts();
    #[cfg(not(feature = "dec"))]
    {
        amounts.extend([-0.0, f64::INFINITY, f64::NEG_INFINITY, f64::NAN, f64::MIN_POSITIVE, 5e-324, f64::MAX, -f64::MAX]);
    }
    #[cfg(feature = "dec")]
    {
        amounts.extend([AmountT::new_raw(1, 18), AmountT::new_raw(-1, 18), AmountT::new_raw(i64::MAX as i128, 0), AmountT::new_raw(99999999999999999999999999999999999, 18)]);
    }
    for _ in 0..(if cfg.thorough { 20 } else { 4 }) {
        amounts.push(rnd_amount(&mut rng, -60, 60));
    }
    let mut salt = cfg.seed as usize;
    for t in &reg.types {
        for u in 0..t.n_units() {
            salt += 1;
            let am = if cfg.thorough { amounts.clone() } else { rotate(&amounts, salt * 5, 8) };
            for (i, a) in am.iter().enumerate() {
                for via in ["new", "axu", "uxa"] {
                    out.ev("New", t.new_(via, *a, u));
                }
                let ks = if cfg.thorough { rotate(&amounts, salt + i, 6) } else { rotate(&amounts, salt + i, 2) };
                for k in ks {
                    for op in ["kxq", "qxk", "qdk"] {
                        out.ev("Scalar", t.scalar(op, *a, u, k));
                    }
                }
            }
        }
    }
}

pub fn lookup_events(reg: &Registry, cfg: &Cfg, out: &mut Out) {
    let mut rng = Rng::new(cfg.seed ^ 0xC09);
    for t in &reg.types {
        let n = t.n_units();
        let mut syms: Vec<String> = vec![String::new(), " ".into(), "?".into(), "kg ".into(), "µ".into(), "Ω".into()];
        let mut scales: Vec<AmountT> = vec![zero(), one(), -one()];
        for u in 0..n {
            let info = t.unit_info(u);
            let s = info["sym"]["s"].as_str().unwrap_or("").to_string();
            // the symbol itself, case flips, one-edit near misses
            let flip: String = s.chars().map(|c| if c.is_lowercase() { c.to_uppercase().next().unwrap() } else { c.to_lowercase().next().unwrap() }).collect();
            syms.push(s.clone());
            syms.push(flip);
            syms.push(s.to_uppercase());
            syms.push(s.to_lowercase());
            syms.push(format!("{}x", s));
            syms.push(format!(" {}", s));
            if !s.is_empty() {
                let cs: Vec<char> = s.chars().collect();
                syms.push(cs[..cs.len() - 1].iter().collect());
                syms.push(cs[1..].iter().collect());
            }
            if let Some(sc) = t.scale(u) {
                scales.push(sc);
                let (lo, hi) = neighbours(sc);
                scales.push(lo);
                scales.push(hi);
                if let Some(x) = safe(|| -sc) {
                    scales.push(x);
                }
                if let Some(x) = safe(|| sc * small_int(10)) {
                    scales.push(x);
                }
            }
        }
        for _ in 0..(if cfg.thorough { 40 } else { 6 }) {
            let len = 1 + rng.below(3) as usize;
            let alphabet: Vec<char> = "abcdefghijklmnopqrstuvwxyzABCDEFGHIJKLMNOPQRSTUVWXYZ/²³µ°".chars().collect();
            syms.push((0..len).map(|_| *rng.pick(&alphabet)).collect());
            scales.push(rnd_amount(&mut rng, -30, 40));
        }
        #[cfg(not(feature = "dec"))]
        {
            scales.extend([f64::NAN, f64::INFINITY, -0.0, f64::MIN_POSITIVE]);
        }
        syms.sort();
        syms.dedup();
        for s in &syms {
            out.ev("Lookup", t.lookup_sym(s));
        }
        for k in &scales {
            out.ev("Lookup", t.lookup_scale(*k));
        }
    }
}

/// C04 / C05: every derived operator instance x all operand unit pairs
pub fn c04_derived(reg: &Registry, cfg: &Cfg, out: &mut Out, sweep: bool) {
    let mut rng = Rng::new(cfg.seed ^ 0xC04);
    let base = base_amounts();
    let mut salt = cfg.seed as usize;
    for b in &reg.binops {
        let (lt, rt, rest) = (reg.ty(b.l).unwrap(), reg.ty(b.r).unwrap(), reg.ty(b.res).unwrap());
        for ua in 0..lt.n_units() {
            for ub in 0..rt.n_units() {
                salt += 1;
                let (sa, sb) = (lt.scale(ua).unwrap(), rt.scale(ub).unwrap());
                let mut pairs: Vec<(AmountT, AmountT)> = vec![];
                if !sweep {
                    let k = if cfg.thorough { 6 } else { 2 };
                    let xs = rotate(&base[1..], salt * 2, k);
                    let ys = rotate(&base[1..], salt * 3 + 1, k);
                    for i in 0..k {
                        pairs.push((xs[i], ys[i]));
                    }
                    pairs.push((zero(), base[1 + salt % (base.len() - 1)]));
                    pairs.push((rnd_amount(&mut rng, -10, 20), rnd_amount(&mut rng, -10, 20)));
                    // small and large quotients / products of ordinary amounts
                    let (tiny, mid) = (from_parts_dec(salt % 2 == 1, 3, -4), from_parts_dec(false, 15, -1));
                    pairs.push((tiny, mid));
                    if (salt / 2) % 2 == 0 || cfg.thorough {
                        pairs.push((mid, tiny));
                    }
                    if cfg.thorough {
                        pairs.push((one(), one()));
                        pairs.push((rnd_amount(&mut rng, -20, 30), rnd_amount(&mut rng, -4, 4)));
                    }
                } else {
                    // result magnitude onto / just beside every unit scale of the result type
                    let targets: Vec<usize> = if cfg.thorough { (0..rest.n_units()).collect() } else { rotate(&(0..rest.n_units()).collect::<Vec<_>>(), salt, 2) };
                    for tu in targets {
                        let st = rest.scale(tu).unwrap();
                        let a = if salt % 2 == 0 { one() } else { small_int(2) };
                        let bb = if b.op == "mul" { safe(|| st / (sa * sb) / a) } else { safe(|| (a * sa) / (st * sb)) };
                        if let Some(bv) = bb {
                            let (lo, hi) = neighbours(bv);
                            pairs.push((a, bv));
                            pairs.push((a, lo));
                            pairs.push((a, hi));
                            if cfg.thorough {
                                pairs.push((-a, bv));
                                pairs.push((a, safe(|| bv * small_int(3)).unwrap_or(bv)));
                            }
                        }
                    }
                    pairs.push((zero(), one()));
                }
                for (x, y) in pairs {
                    out.ev("Derived", (b.f)(x, ua, y, ub));
                }
            }
        }
    }
    if sweep {
        // direct fits
        for t in &reg.types {
            if t.kind() != "ref" {
                continue;
            }
            let mut ms: Vec<AmountT> = vec![zero(), -one()];
            for u in 0..t.n_units() {
                let s = t.scale(u).unwrap();
                let (lo, hi) = neighbours(s);
                ms.extend([s, lo, hi]);
                if let Some(x) = safe(|| s * small_int(3)) {
                    ms.push(x);
                }
                if let Some(x) = safe(|| -s) {
                    ms.push(x);
                }
                if let Some(x) = safe(|| s / small_int(7)) {
                    ms.push(x);
                }
            }
            for _ in 0..(if cfg.thorough { 20 } else { 3 }) {
                ms.push(rnd_amount(&mut rng, -30, 40));
            }
            for m in ms {
                out.ev("Fit", t.fit(m));
            }
        }
    }
}

pub fn c13_rates(reg: &Registry, cfg: &Cfg, out: &mut Out) {
    let mut rng = Rng::new(cfg.seed ^ 0xC13);
    let base = base_amounts();
    let mut salt = cfg.seed as usize;
    for rp in &reg.rates {
        let tt = if rp.tq == "Amount" { reg.ty("Amount").unwrap() } else { reg.ty(rp.tq).unwrap() };
        let pt = if rp.pq == "Amount" { reg.ty("Amount").unwrap() } else { reg.ty(rp.pq).unwrap() };
        for tu in 0..tt.n_units() {
            for pu in 0..pt.n_units() {
                salt += 1;
                let nn = if cfg.thorough { 4 } else { 1 };
                for j in 0..nn {
                    let ta = base[1 + (salt * 7 + j) % (base.len() - 1)];
                    // per-multiples that are not powers of ten, and one
                    let pms = [small_int(1), from_parts_dec(false, 10, -1), small_int(-4), from_parts_dec(true, 25, -1), small_int(100), from_parts_dec(false, 25, -1), small_int(7), small_int(3600)];
                    let pm = pms[(salt + j) % pms.len()];
                    for kind in ["new", "vals", "recip", "fmt"] {
                        out.ev("Rate", (rp.f)(kind, ta, tu, pm, pu, zero(), 0));
                    }
                    if j == 0 && (salt % 3 == 0 || cfg.thorough) {
                        // very small / very large per multiples and term amounts (f64 totality is unconditional)
                        let tiny = from_parts_dec(false, 5, -16);
                        let huge = from_parts_dec(false, 3, 15);
                        for (t2, p2) in [(ta, tiny), (tiny, pm), (huge, tiny), (ta, huge)] {
                            for kind in ["rxq", "qxr"] {
                                out.ev("Rate", (rp.f)(kind, t2, tu, p2, pu, tiny, pu));
                            }
                            out.ev("Rate", (rp.f)("qdr", t2, tu, p2, pu, huge, tu));
                        }
                    }
                    // operands in every unit of the per / term quantity
                    for qu in 0..pt.n_units() {
                        if !cfg.thorough && (qu + salt) % 2 == 1 && pt.n_units() > 3 {
                            continue;
                        }
                        let qa = if j % 2 == 0 { base[1 + (salt * 3 + qu) % (base.len() - 1)] } else { rnd_amount(&mut rng, -8, 16) };
                        for kind in ["rxq", "qxr"] {
                            out.ev("Rate", (rp.f)(kind, ta, tu, pm, pu, qa, qu));
                        }
                    }
                    for qu in 0..tt.n_units() {
                        if !cfg.thorough && (qu + salt) % 2 == 1 && tt.n_units() > 3 {
                            continue;
                        }
                        let qa = if j % 2 == 0 { base[1 + (salt * 5 + qu) % (base.len() - 1)] } else { rnd_amount(&mut rng, -8, 16) };
                        out.ev("Rate", (rp.f)("qdr", ta, tu, pm, pu, qa, qu));
                    }
                }
            }
        }
    }
}

pub fn c14_tables(reg: &Registry, cfg: &Cfg, out: &mut Out) {
    let mut rng = Rng::new(cfg.seed ^ 0xC14);
    let base = base_amounts();
    for tb in &reg.tables {
        let t = reg.ty(tb.t).unwrap();
        let n = t.n_units();
        // the predefined table (if any): all unit pairs x temperatures incl. fixed points
        let mut temps: Vec<AmountT> = base.clone();
        for (m, e) in [(27315u64, -2), (4000, -2), (45967, -2), (32, 0), (100, 0), (37315, -2), (1000000, 0), (212, 0), (25537222222222222u64, -14)] {
            temps.push(from_parts_dec(false, m, e));
            temps.push(from_parts_dec(true, m, e));
        }
        for _ in 0..(if cfg.thorough { 30 } else { 4 }) {
            temps.push(rnd_amount(&mut rng, -6, 20));
        }
        for u in 0..n {
            for to in 0..n {
                for a in &temps {
                    out.ev("Table", (tb.f)(&[], *a, u, to, true));
                }
            }
        }
        // random tables: duplicates, missing pairs
        let ntab = if cfg.thorough { 60 } else { 10 };
        for _ in 0..ntab {
            let len = rng.below(9) as usize;
            let rows: Vec<(usize, usize, AmountT, AmountT)> = (0..len)
                .map(|_| {
                    // now and then an "alias" row (factor exactly 1 and / or offset exactly 0)
                    let (one, zero) = (from_parts_dec(false, 1, 0), from_parts_dec(false, 0, 0));
                    let (f, o) = match rng.below(8) {
                        0 | 1 => (one, zero),
                        2 => (one, *rng.pick(&base)),
                        3 => (*rng.pick(&base), zero),
                        _ => (*rng.pick(&base), *rng.pick(&base)),
                    };
                    (rng.below(n as u64) as usize, rng.below(n as u64) as usize, f, o)
                })
                .collect();
            for u in 0..n {
                for to in 0..n {
                    let a = *rng.pick(&base);
                    out.ev("Table", (tb.f)(&rows, a, u, to, false));
                }
            }
        }
    }
}

/// m * 10^e in the amount type (f64: nearest double of the decimal literal)
pub fn from_parts_dec(neg: bool, m: u64, e: i32) -> AmountT {
    #[cfg(feature = "dec")]
    {
        from_parts(neg, m, e)
    }
    #[cfg(not(feature = "dec"))]
    {
        let s = format!("{}{}e{}", if neg { "-" } else { "" }, m, e);
        s.parse::<f64>().unwrap()
    }
}

pub fn spec_grid(rng: &mut Rng, thorough: bool, salt: usize) -> Vec<Spec> {
    let mut v = vec![];
    let widths: Vec<Option<usize>> = vec![None, Some(0), Some(1), Some(5), Some(8), Some(9), Some(10), Some(11), Some(12), Some(15), Some(20), Some(24), Some(31), Some(40)];
    let precs: Vec<Option<usize>> = vec![None, Some(0), Some(1), Some(2), Some(3), Some(6), Some(9), Some(12), Some(15), Some(17), Some(18), Some(19), Some(20)];
    // every (plus, align, fill) combination once, widths/precisions rotating
    let mut i = salt;
    for plus in [false, true] {
        for al in ALIGNS {
            let fills: Vec<Option<char>> = if al.is_some() { FILLS.to_vec() } else { vec![None] };
            for fi in fills {
                i += 1;
                if !thorough && (i + salt) % 3 != 0 {
                    continue;
                }
                v.push(Spec { plus, zero: false, fill: fi, align: al, width: widths[i % widths.len()], prec: precs[(i / 2) % precs.len()] });
            }
        }
    }
    for _ in 0..(if thorough { 6 } else { 2 }) {
        let al = *rng.pick(&ALIGNS);
        v.push(Spec { plus: rng.coin(), zero: false, fill: if al.is_some() { *rng.pick(&FILLS) } else { None }, align: al, width: *rng.pick(&widths), prec: *rng.pick(&precs) });
    }
    v.push(Spec { plus: false, zero: false, fill: None, align: None, width: None, prec: None });
    // the 0 flag: sign first, then zeros up to the width
    for plus in [false, true] {
        v.push(Spec { plus, zero: true, fill: None, align: None, width: widths[(salt + 3) % widths.len()], prec: precs[salt % precs.len()] });
        if thorough {
            v.push(Spec { plus, zero: true, fill: None, align: None, width: Some(14), prec: None });
        }
    }
    v
}

pub fn c15_format(reg: &Registry, cfg: &Cfg, out: &mut Out) {
    let mut rng = Rng::new(cfg.seed ^ 0xC15);
    let mut amounts = base_amounts();
    // rounds to zero / up across a digit boundary / many digits / large
    for (m, e) in [(4u64, -1), (5, -1), (6, -1), (96, -2), (995, -3), (9995, -4), (99999999, -4), (15, -1), (25, -1), (125, -3), (1, -7), (49999999999999999u64, -17), (123456789012345678u64, -5)] {
        amounts.push(from_parts_dec(false, m, e));
        amounts.push(from_parts_dec(true, m, e));
    }
    #[cfg(not(feature = "dec"))]
    {
        amounts.extend([-0.0, 1e21, 1.5e-7, 123456789.87654321]);
    }
    #[cfg(feature = "dec")]
    {
        amounts.extend([AmountT::new_raw(1, 18), AmountT::new_raw(-5, 18), AmountT::new_raw(123456789012345678901234567, 18)]);
    }
    let mut salt = cfg.seed as usize;
    for t in &reg.types {
        for u in 0..t.n_units() {
            salt += 1;
            let specs = spec_grid(&mut rng, cfg.thorough, salt);
            for (i, sp) in specs.iter().enumerate() {
                let am = if cfg.thorough { rotate(&amounts, salt + i * 7, 6) } else { rotate(&amounts, salt + i * 7, 2) };
                for a in am {
                    out.ev("Format", t.format(a, u, sp));
                }
                let a = rnd_amount(&mut rng, -20, 50);
                out.ev("Format", t.format(a, u, sp));
                if i % 3 == 0 {
                    // widths exactly at / one below / one above the natural length of this very output
                    let probe = t.format(a, u, &Spec { width: None, ..sp.clone() });
                    if let Some(n) = probe["out"]["ok"]["cp"].as_array().map(|c| c.len()) {
                        for w in [n.saturating_sub(1), n, n + 1] {
                            out.ev("Format", t.format(a, u, &Spec { width: Some(w), ..sp.clone() }));
                            out.ev("Format", t.format(-a, u, &Spec { width: Some(w), ..sp.clone() }));
                        }
                    }
                }
                if i % 4 == 0 {
                    out.ev("FormatUnit", t.format_unit(u, sp));
                }
            }
        }
    }
    // rates
    for rp in &reg.rates {
        let tt = reg.ty(rp.tq).unwrap();
        let pt = reg.ty(rp.pq).unwrap();
        for tu in 0..tt.n_units() {
            for pu in 0..pt.n_units() {
                salt += 1;
                // per-multiples: one (in three spellings), above one, BELOW one, negative, zero
                for pm in [one(), small_int(100), from_parts_dec(false, 25, -1), from_parts_dec(false, 10, -1), from_parts_dec(false, 1000, -3),
                           from_parts_dec(false, 5, -1), from_parts_dec(false, 25, -2), from_parts_dec(false, 1, -3), small_int(-4), small_int(-1), zero()] {
                    let ta = amounts[salt % amounts.len()];
                    out.ev("Rate", (rp.f)("fmt", ta, tu, pm, pu, zero(), 0));
                }
            }
        }
    }
}

pub fn c17_serde(reg: &Registry, cfg: &Cfg, out: &mut Out) {
    let mut rng = Rng::new(cfg.seed ^ 0xC17);
    let mut amounts = base_amounts();
    #[cfg(not(feature = "dec"))]
    {
        amounts.extend([-0.0, f64::MIN_POSITIVE, f64::MAX, -f64::MAX, 5e-324, 0.1 + 0.2, 1.0 / 3.0, 1e23, 2.2250738585072011e-308, 9007199254740993.0, 1e-7, 123456789012345680.0]);
    }
    #[cfg(feature = "dec")]
    {
        amounts.extend([AmountT::new_raw(1, 18), AmountT::new_raw(-1, 18), AmountT::new_raw(123456789012345678, 18), AmountT::new_raw(i64::MAX as i128, 9), AmountT::new_raw(-170141183460469231731687303715884105727, 18), AmountT::new_raw(170141183460469231731687303715884105727, 0), AmountT::new_raw(5, 1)]);
    }
    let mut salt = cfg.seed as usize;
    for s in &reg.serde {
        let t = reg.ty(s.t).unwrap();
        out.ev("SerdeNames", (s.names)());
        for u in 0..t.n_units() {
            salt += 1;
            let mut am = if cfg.thorough { amounts.clone() } else { rotate(&amounts, salt * 5, 8) };
            for _ in 0..(if cfg.thorough { 10 } else { 2 }) {
                am.push(rnd_amount(&mut rng, -60, 60));
            }
            for a in am {
                out.ev("Serde", (s.f)(a, u));
            }
        }
    }
}

/// C18: special-value sweep (f64: every class of IEEE value; decimal: edges of the range)
pub fn c18_special(reg: &Registry, cfg: &Cfg, out: &mut Out) {
    let mut rng = Rng::new(cfg.seed ^ 0xC18);
    #[cfg(not(feature = "dec"))]
    let specials: Vec<AmountT> = vec![0.0, -0.0, 5e-324, -5e-324, f64::MIN_POSITIVE, f64::MAX, -f64::MAX, f64::INFINITY, f64::NEG_INFINITY, f64::NAN, 1.0, -1e300, 1e-300];
    #[cfg(feature = "dec")]
    let specials: Vec<AmountT> = {
        let mut v = vec![zero(), AmountT::new_raw(1, 15), AmountT::new_raw(-1, 15), AmountT::new_raw(1, 14), from_parts(false, 1, 17), from_parts(true, 1, 17), from_parts(false, 99999, 12), from_parts(false, 3, 16), AmountT::new_raw(1, 18), from_parts(false, 1, 19), one()];
        for _ in 0..6 {
            v.push(rnd_amount(&mut rng, -48, 56));
        }
        v
    };
    let sp = Spec { plus: true, zero: false, fill: Some('*'), align: Some('^'), width: Some(12), prec: Some(3) };
    let sp0 = Spec { plus: false, zero: false, fill: None, align: None, width: None, prec: None };
    let mut salt = cfg.seed as usize;
    for t in &reg.types {
        if t.kind() != "ref" {
            continue;
        }
        let n = t.n_units();
        for ua in 0..n {
            for ub in 0..n {
                if !cfg.thorough && n > 6 && (ua * 31 + ub * 17 + salt) % 4 != 0 {
                    continue;
                }
                salt += 1;
                // a large amount of a small unit against a small amount of a large unit (and vice versa): every
                // natural magnitude can be in range while the quotient of the raw amounts is not
                {
                    let (big, small) = (from_parts_dec(false, 1, 15), from_parts_dec(false, 1, -6));
                    for (a, b) in [(big, small), (small, big)] {
                        out.ev("Cmp", t.cmp(a, ua, b, ub));
                        out.ev("Arith", t.arith("div", a, ua, b, ub));
                        out.ev("Arith", t.arith("add", a, ua, b, ub));
                    }
                }
                let xs = if cfg.thorough { specials.clone() } else { rotate(&specials, salt, 4) };
                for (i, a) in xs.iter().enumerate() {
                    out.ev("Convert", t.convert(*a, ua, ub));
                    let b = specials[(salt + i * 3) % specials.len()];
                    out.ev("Cmp", t.cmp(*a, ua, b, ub));
                    for op in ["add", "sub", "div"] {
                        out.ev("Arith", t.arith(op, *a, ua, b, ub));
                    }
                    if ua == ub {
                        out.ev("Scalar", t.scalar(["kxq", "qxk", "qdk"][i % 3], *a, ua, b));
                        out.ev("Format", t.format(*a, ua, &sp));
                        out.ev("Format", t.format(*a, ua, &sp0));
                        let probe = t.format(*a, ua, &Spec { plus: true, ..sp0.clone() });
                        if let Some(n) = probe["out"]["ok"]["cp"].as_array().map(|c| c.len()) {
                            for w in [n.saturating_sub(2), n.saturating_sub(1), n, n + 1] {
                                out.ev("Format", t.format(*a, ua, &Spec { plus: true, width: Some(w), ..sp0.clone() }));
                            }
                        }
                        out.ev("Fit", t.fit(*a));
                    }
                }
            }
        }
    }
    for b in &reg.binops {
        let (lt, rt) = (reg.ty(b.l).unwrap(), reg.ty(b.r).unwrap());
        for ua in 0..lt.n_units() {
            for ub in 0..rt.n_units() {
                if !cfg.thorough && (ua * 7 + ub * 13 + salt) % 5 != 0 {
                    continue;
                }
                salt += 1;
                for i in 0..(if cfg.thorough { 6 } else { 2 }) {
                    let x = specials[(salt + i) % specials.len()];
                    let y = specials[(salt * 3 + i * 5) % specials.len()];
                    out.ev("Derived", (b.f)(x, ua, y, ub));
                }
            }
        }
    }
    for rp in &reg.rates {
        let tt = reg.ty(rp.tq).unwrap();
        let pt = reg.ty(rp.pq).unwrap();
        if tt.kind() != "ref" || pt.kind() != "ref" {
            continue;
        }
        // large amounts that carry many fractional digits: every factor, the result and their values in the
        // smallest units stay inside the range (for quantities whose smallest unit is not tiny), but products
        // of two of them do not fit the decimal representation
        #[cfg(feature = "dec")]
        let bigs: Vec<AmountT> = vec![
            AmountT::new_raw(3141592653589793238462643, 12),
            AmountT::new_raw(2718281828459045235360287, 12),
            AmountT::new_raw(1414213562373095048801688, 12),
            AmountT::new_raw(12345678901234567, 1),
            AmountT::new_raw(98765432109876543, 1),
            AmountT::new_raw(55555555555555555, 1),
        ];
        #[cfg(not(feature = "dec"))]
        let bigs: Vec<AmountT> = vec![3.141592653589793e12, 2.718281828459045e12, 1.4142135623730951e12, 1.2345678901234568e15, 9.876543210987654e15, 5.555555555555556e15];
        for k in 0..2 {
            let (ta, pm, qa) = (bigs[3 * k], bigs[3 * k + 2], bigs[3 * k + 1]);
            let ru = |t: &dyn QtyOps| (0..t.n_units()).find(|u| t.unit_info(*u)["is_ref"].as_bool().unwrap_or(false)).unwrap_or(0);
            let (tu, pu) = (ru(tt), ru(pt));
            for kind in ["rxq", "qxr"] {
                out.ev("Rate", (rp.f)(kind, ta, tu, pm, pu, qa, pu));
                out.ev("Rate", (rp.f)(kind, qa, tu, ta, pu, pm, (pu + k) % pt.n_units()));
            }
            out.ev("Rate", (rp.f)("qdr", ta, tu, pm, pu, qa, tu));
            out.ev("Rate", (rp.f)("qdr", pm, tu, qa, pu, ta, (tu + k) % tt.n_units()));
        }
        for i in 0..specials.len() {
            let ta = specials[i];
            let pm = specials[(i * 5 + 1) % specials.len()];
            let qa = specials[(i * 3 + 2) % specials.len()];
            let (tu, pu) = (i % tt.n_units(), (i * 3) % pt.n_units());
            for kind in ["rxq", "qxr"] {
                out.ev("Rate", (rp.f)(kind, ta, tu, pm, pu, qa, (i * 7) % pt.n_units()));
            }
            out.ev("Rate", (rp.f)("qdr", ta, tu, pm, pu, qa, (i * 7) % tt.n_units()));
            out.ev("Rate", (rp.f)("fmt", ta, tu, pm, pu, qa, 0));
        }
    }
}

/// C16: the SI prefix table, exhaustively over its finite parts
pub fn c16_si(cfg: &Cfg, out: &mut Out) {
    use quantities::SIPrefix;
    let mut rng = Rng::new(cfg.seed ^ 0xC16);
    let all: Vec<SIPrefix> = SIPrefix::iter().cloned().collect();
    out.ev("SI", json!({"kind": "iter", "ids": all.iter().map(|p| format!("{:?}", p)).collect::<Vec<_>>()}));
    for p in &all {
        out.ev("SI", json!({"kind": "entry", "id": format!("{:?}", p), "name": txt(p.name()), "abbr": txt(p.abbr()), "exp": p.exp() as i64}));
    }
    for e in i8::MIN..=i8::MAX {
        let r = guard(|| SIPrefix::from_exp(e).map(|p| format!("{:?}", p)));
        out.ev("SI", json!({"kind": "from_exp", "e": e as i64, "out": oc(r.map(opt_s))}));
    }
    // all strings of length <= 2 over the abbreviation alphabet plus a few foreign characters
    let mut alphabet: Vec<char> = vec![];
    for p in &all {
        for c in p.abbr().chars() {
            if !alphabet.contains(&c) {
                alphabet.push(c);
            }
        }
    }
    for c in ['u', 'μ', 'K', 'D', 'H', ' ', 'x', 'A', 'N', 'F', 'C'] {
        if !alphabet.contains(&c) {
            alphabet.push(c);
        }
    }
    let mut keys: Vec<String> = vec![String::new()];
    for a in &alphabet {
        keys.push(a.to_string());
        for b in &alphabet {
            keys.push(format!("{}{}", a, b));
        }
    }
    for _ in 0..(if cfg.thorough { 400 } else { 40 }) {
        let len = 1 + rng.below(4) as usize;
        keys.push((0..len).map(|_| *rng.pick(&alphabet)).collect());
    }
    for p in &all {
        keys.push(p.name().to_string());
        keys.push(p.name().to_lowercase());
        keys.push(format!("{:?}", p));
    }
    for k in keys {
        let r = guard(|| SIPrefix::from_abbr(&k).map(|p| format!("{:?}", p)));
        out.ev("SI", json!({"kind": "from_abbr", "key": txt(&k), "out": oc(r.map(opt_s))}));
    }
}

// ---------------------------------------------------------------------------
// (B) specification -> implementation: replay events produced by the TLA+ calculator machine

/// exact number m*2^p*10^q (as written by TLC) -> amount; exact for the dyadic model amounts
pub fn amt_from_x(x: &Value) -> Option<AmountT> {
    // recorded events carry the amount's own exact textual representation
    if let Some(r) = x["r"].as_str() {
        return parse_amt(r);
    }
    if x["k"].as_str()? != "fin" {
        return None;
    }
    let mut m: u128 = 0;
    let limbs = x["m"].as_array()?;
    for l in limbs.iter().rev() {
        m = m.checked_mul(10000)?.checked_add(l.as_u64()? as u128)?;
    }
    let neg = x["neg"].as_bool()?;
    let p = x["p"].as_i64()? as i32;
    let q = x["q"].as_i64()? as i32;
    if q != 0 || m >= (1u128 << 53) {
        return None;
    }
    #[cfg(not(feature = "dec"))]
    {
        let v = (m as f64) * (2f64).powi(p);
        Some(if neg { -v } else { v })
    }
    #[cfg(feature = "dec")]
    {
        let (c, nfrac) = if p >= 0 {
            (m.checked_mul(1u128 << p)?, 0u8)
        } else {
            if -p > 18 {
                return None;
            }
            (m.checked_mul(5u128.checked_pow((-p) as u32)?)?, (-p) as u8)
        };
        let c = c as i128;
        Some(AmountT::new_raw(if neg { -c } else { c }, nfrac))
    }
}

fn unit_idx(t: &dyn QtyOps, id: &str) -> Option<usize> {
    (0..t.n_units()).find(|u| t.unit_id(*u) == id)
}

pub fn replay(reg: &Registry, input: &str, out: &mut Out) -> (usize, usize) {
    let txt = std::fs::read_to_string(input).expect("read model events");
    let (mut done, mut skipped) = (0, 0);
    for line in txt.lines() {
        let e: Value = match serde_json::from_str(line) {
            Ok(v) => v,
            Err(_) => continue,
        };
        let kind = e["ev"].as_str().unwrap_or("");
        let r: Option<(Value, Value)> = (|| {
            match kind {
                "New" => {
                    let t = reg.ty(e["T"].as_str()?)?;
                    Some((t.new_(e["via"].as_str()?, amt_from_x(&e["a"])?, unit_idx(t, e["u"].as_str()?)?), json!({"out": e["out"]})))
                }
                "Convert" => {
                    let t = reg.ty(e["T"].as_str()?)?;
                    Some((t.convert(amt_from_x(&e["v"]["a"])?, unit_idx(t, e["v"]["u"].as_str()?)?, unit_idx(t, e["to"].as_str()?)?),
                          json!({"out": e["out"], "eqv": e["eqv"]})))
                }
                "Cmp" => {
                    let t = reg.ty(e["T"].as_str()?)?;
                    Some((t.cmp(amt_from_x(&e["x"]["a"])?, unit_idx(t, e["x"]["u"].as_str()?)?, amt_from_x(&e["y"]["a"])?, unit_idx(t, e["y"]["u"].as_str()?)?),
                          json!({"ab": e["ab"], "ba": e["ba"]})))
                }
                "Arith" => {
                    let t = reg.ty(e["T"].as_str()?)?;
                    Some((t.arith(e["op"].as_str()?, amt_from_x(&e["x"]["a"])?, unit_idx(t, e["x"]["u"].as_str()?)?, amt_from_x(&e["y"]["a"])?, unit_idx(t, e["y"]["u"].as_str()?)?),
                          json!({"out": e["out"]})))
                }
                "Scalar" => {
                    let t = reg.ty(e["T"].as_str()?)?;
                    Some((t.scalar(e["op"].as_str()?, amt_from_x(&e["q"]["a"])?, unit_idx(t, e["q"]["u"].as_str()?)?, amt_from_x(&e["k"])?), json!({"out": e["out"]})))
                }
                "Derived" => {
                    let (op, l, r) = (e["op"].as_str()?, e["L"].as_str()?, e["R"].as_str()?);
                    let b = reg.binops.iter().find(|b| b.op == op && b.l == l && b.r == r)?;
                    let (lt, rt) = (reg.ty(l)?, reg.ty(r)?);
                    Some(((b.f)(amt_from_x(&e["x"]["a"])?, unit_idx(lt, e["x"]["u"].as_str()?)?, amt_from_x(&e["y"]["a"])?, unit_idx(rt, e["y"]["u"].as_str()?)?),
                          json!({"out": e["out"]})))
                }
                "Fit" => {
                    let t = reg.ty(e["T"].as_str()?)?;
                    Some((t.fit(amt_from_x(&e["m"])?), json!({"out": e["out"]})))
                }
                "Lookup" => {
                    let t = reg.ty(e["T"].as_str()?)?;
                    Some((t.lookup_scale(amt_from_x(&e["key"])?), json!({"out": e["out"]})))
                }
                "Rate" => {
                    let (tq, pq, kind) = (e["TQ"].as_str()?, e["PQ"].as_str()?, e["kind"].as_str()?);
                    let rp = reg.rates.iter().find(|r| r.tq == tq && r.pq == pq)?;
                    let (tt, pt) = (reg.ty(tq)?, reg.ty(pq)?);
                    let ot = if kind == "qdr" { tt } else { pt };
                    let rate = &e["rate"];
                    Some(((rp.f)(kind, amt_from_x(&rate["ta"])?, unit_idx(tt, rate["tu"].as_str()?)?, amt_from_x(&rate["pm"])?, unit_idx(pt, rate["pu"].as_str()?)?,
                                 amt_from_x(&e["q"]["a"])?, unit_idx(ot, e["q"]["u"].as_str()?)?),
                          json!({"out": e["out"]})))
                }
                "Table" => {
                    let tn = e["T"].as_str()?;
                    let t = reg.ty(tn)?;
                    let tb = reg.tables.iter().find(|x| x.t == tn)?;
                    let mut rows = vec![];
                    for r in e["rows"].as_array()? {
                        rows.push((unit_idx(t, r["from"].as_str()?)?, unit_idx(t, r["to"].as_str()?)?, amt_from_x(&r["f"])?, amt_from_x(&r["o"])?));
                    }
                    Some(((tb.f)(&rows, amt_from_x(&e["v"]["a"])?, unit_idx(t, e["v"]["u"].as_str()?)?, unit_idx(t, e["to"].as_str()?)?, false),
                          json!({"out": e["out"]})))
                }
                _ => None,
            }
        })();
        match r {
            Some((mut real, model)) => {
                if real.is_null() {
                    skipped += 1;
                    continue;
                }
                real["model"] = model;
                out.ev(kind, real);
                done += 1;
            }
            None => {
                skipped += 1;
                eprintln!("cannot replay: {}", &line[..line.len().min(300)]);
            }
        }
    }
    (done, skipped)
}

// ---------------------------------------------------------------------------
// beyond the listed properties: the derive macros VariantsAsConstants / EnumIter
pub mod derive_fx {
    #[allow(non_camel_case_types)]
    #[derive(Copy, Clone, Debug, PartialEq, qty_macros::VariantsAsConstants, qty_macros::EnumIter)]
    pub enum Shade {
        MultiCamelCase,
        snake_case,
        simple,
        ALL_UPPER,
        Ab,
    }
}

pub fn derive_events(out: &mut Out) {
    use derive_fx::*;
    let declared = ["MultiCamelCase", "snake_case", "simple", "ALL_UPPER", "Ab"];
    let iter: Vec<String> = Shade::iter().map(|v| format!("{:?}", v)).collect();
    let consts: Vec<Value> = [("MULTI_CAMEL_CASE", MULTI_CAMEL_CASE), ("SNAKE_CASE", SNAKE_CASE), ("SIMPLE", SIMPLE), ("ALL_UPPER", ALL_UPPER), ("AB", AB)]
        .iter()
        .map(|(n, v)| json!({"c": txt(n), "id": txt(&format!("{:?}", v))}))
        .collect();
    out.ev("Derive", json!({"variants": declared.iter().map(|d| txt(d)).collect::<Vec<_>>(), "iter": iter.iter().map(|d| txt(d)).collect::<Vec<_>>(), "consts": consts}));
}
