//! qcore: conformance harness for `quantities` — records what the real code does, judges nothing.
pub mod fmtgen;
pub mod num;
pub mod ops;
pub mod drive;

#[cfg(not(feature = "dec"))]
#[path = "gen_catalogue_f64.rs"]
pub mod gen_catalogue;
#[cfg(feature = "dec")]
#[path = "gen_catalogue_dec.rs"]
pub mod gen_catalogue;
pub mod gen_core;
pub mod gen_fx;
/// placeholder in the committed tree; overwritten (in a scratch copy of the harness) with generated declarations
pub mod gen_dyn;

pub mod amount_type {
    use crate::num::enc;
    use quantities::prelude::*;
    use quantities::{AmountT, HasRefUnit, LinearScaledUnit, Quantity, Unit};
    use serde_json::{json, Value};
    crate::ref_ops!(OpsAmount, "Amount", AmountT, quantities::One, [("ONE", quantities::ONE)]);
}

use ops::{BinOp, QtyOps, RatePair, SerdeOps, TableOps};

pub struct Registry {
    pub id: String,
    pub types: Vec<Box<dyn QtyOps>>,
    pub binops: Vec<BinOp>,
    pub rates: Vec<RatePair>,
    pub serde: Vec<SerdeOps>,
    pub tables: Vec<TableOps>,
}

impl Registry {
    pub fn ty(&self, name: &str) -> Option<&dyn QtyOps> {
        self.types.iter().find(|t| t.tname() == name).map(|b| b.as_ref())
    }
}

pub fn registry(which: &str) -> Registry {
    let mut r = Registry { id: which.to_string(), types: vec![], binops: vec![], rates: vec![], serde: vec![], tables: vec![] };
    r.types.push(Box::new(amount_type::OpsAmount::new()));
    match which {
        "cat" => {
            r.types.extend(gen_catalogue::cat_types());
            r.binops = gen_catalogue::cat_binops();
            r.rates = gen_catalogue::cat_rates();
            r.serde = gen_catalogue::cat_serde();
            r.tables = gen_catalogue::cat_tables();
        }
        "core" => {
            r.types.extend(gen_core::core_types());
            r.binops = gen_core::core_binops();
            r.rates = gen_core::core_rates();
            r.tables = gen_core::core_tables();
        }
        "fx" => {
            r.types.extend(gen_fx::fx_types());
            r.binops = gen_fx::fx_binops();
            r.rates = gen_fx::fx_rates();
            r.tables = gen_fx::fx_tables();
        }
        "gen" => {
            r.types.extend(gen_dyn::gen_types());
            r.binops = gen_dyn::gen_binops();
            r.rates = gen_dyn::gen_rates();
            r.tables = gen_dyn::gen_tables();
        }
        _ => panic!("unknown registry {}", which),
    }
    r
}
pub use serde_json;
