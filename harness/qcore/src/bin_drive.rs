use qcore::drive::*;
use qcore::serde_json::{self, json};

fn main() {
    std::panic::set_hook(Box::new(|_| {}));
    qcore::drive::start_watchdog(120.0);
    let args: Vec<String> = std::env::args().collect();
    let get = |k: &str| -> Option<String> {
        args.iter().position(|a| a == k).and_then(|i| args.get(i + 1).cloned())
    };
    let cmd = args.get(1).cloned().unwrap_or_default();
    let regname = get("--reg").unwrap_or_else(|| "cat".to_string());
    let seed: u64 = get("--seed").and_then(|s| s.parse().ok()).unwrap_or(0);
    let thorough = get("--tier").map(|t| t == "thorough").unwrap_or(false);
    let outp = get("--out").unwrap_or_else(|| "/dev/stdout".to_string());
    let reg = qcore::registry(&regname);
    let cfg = Cfg { seed, thorough };
    match cmd.as_str() {
        "dump" => {
            std::fs::write(&outp, serde_json::to_string(&dump(&reg)).unwrap()).unwrap();
        }
        _ => {
            let mut out = Out::new(&outp);
            let regime = if cmd == "replay" { "exact" } else { "rounded" };
            out.ev("Header", json!({"be": qcore::num::BE, "registry": regname, "seed": seed, "tier": if thorough {"thorough"} else {"quick"}, "drv": cmd, "regime": regime}));
            match cmd.as_str() {
                "units" => unit_events(&reg, &mut out),
                "replay" => {
                    let (done, skipped) = replay(&reg, &get("--in").expect("--in"), &mut out);
                    eprintln!("replayed: {} skipped: {}", done, skipped);
                    if skipped > 0 {
                        out.finish();
                        std::process::exit(3);
                    }
                }
                "c01" => c01_convert(&reg, &cfg, &mut out),
                "c02" => c02_cmp(&reg, &cfg, &mut out, false),
                "c03" => c03_arith(&reg, &cfg, &mut out, false),
                "c04" => c04_derived(&reg, &cfg, &mut out, false),
                "c05" => c04_derived(&reg, &cfg, &mut out, true),
                "c08" => c08_new_scalar(&reg, &cfg, &mut out),
                "lookup" => lookup_events(&reg, &cfg, &mut out),
                "c10" => { c02_cmp(&reg, &cfg, &mut out, true); c03_arith(&reg, &cfg, &mut out, true); }
                "c13" => c13_rates(&reg, &cfg, &mut out),
                "c14" => c14_tables(&reg, &cfg, &mut out),
                "c15" => c15_format(&reg, &cfg, &mut out),
                "c16" => { c16_si(&cfg, &mut out); derive_events(&mut out); }
                "c17" => c17_serde(&reg, &cfg, &mut out),
                "c18" => c18_special(&reg, &cfg, &mut out),
                other => {
                    eprintln!("unknown driver {}", other);
                    std::process::exit(2);
                }
            }
            let n = out.finish();
            eprintln!("events: {}", n);
        }
    }
}
