//! Type-erased access to the operations of quantity types. The macros below are expanded
//! with *concrete* types, so that no generic bounds can hide or paper over a missing impl.
//! Nothing in here judges a result: every function calls the library and records what came back.
use crate::fmtgen::Spec;
use quantities::AmountT;
use serde_json::{json, Value};
use std::panic::{catch_unwind, AssertUnwindSafe};

pub fn guard<T>(f: impl FnOnce() -> T) -> Result<T, String> {
    match catch_unwind(AssertUnwindSafe(f)) {
        Ok(v) => Ok(v),
        Err(e) => {
            let msg = if let Some(s) = e.downcast_ref::<&str>() {
                s.to_string()
            } else if let Some(s) = e.downcast_ref::<String>() {
                s.clone()
            } else {
                "<non-string panic>".to_string()
            };
            Err(msg)
        }
    }
}

pub fn oc(r: Result<Value, String>) -> Value {
    match r {
        Ok(v) => json!({ "ok": v }),
        Err(m) => json!({ "panic": m }),
    }
}

pub fn opt_s(o: Option<String>) -> Value {
    json!(o.unwrap_or_else(|| "-".to_string()))
}

/// TLC's JSON reader rejects null: replace any remaining null by "-" (belt and braces).
pub fn denull(v: &mut Value) {
    match v {
        Value::Null => *v = json!("-"),
        Value::Array(a) => a.iter_mut().for_each(denull),
        Value::Object(o) => o.values_mut().for_each(denull),
        _ => {}
    }
}

/// TLC-friendly structural description of a serde_json value (TLC's JSON reader has no floats / nulls)
pub fn tree_desc(v: &Value) -> Value {
    match v {
        Value::Null => json!({"t": "null"}),
        Value::Bool(b) => json!({"t": "bool", "b": b}),
        Value::Number(n) => {
            let r = n.to_string();
            let x = r.parse::<f64>().unwrap_or(f64::NAN);
            json!({"t": "num", "r": txt(&r), "x": crate::num::enc_f64(x)})
        }
        Value::String(s) => json!({"t": "str", "s": txt(s)}),
        Value::Array(a) => json!({"t": "arr", "items": a.iter().map(tree_desc).collect::<Vec<_>>()}),
        Value::Object(o) => json!({"t": "obj", "keys": o.keys().cloned().collect::<Vec<_>>(), "vals": o.values().map(tree_desc).collect::<Vec<_>>()}),
    }
}

pub fn cps(s: &str) -> Vec<u32> {
    s.chars().map(|c| c as u32).collect()
}
pub fn txt(s: &str) -> Value {
    json!({"s": s, "cp": cps(s)})
}

pub fn ord_s(o: Option<core::cmp::Ordering>) -> &'static str {
    match o {
        None => "None",
        Some(core::cmp::Ordering::Less) => "Less",
        Some(core::cmp::Ordering::Equal) => "Equal",
        Some(core::cmp::Ordering::Greater) => "Greater",
    }
}

pub fn spec_json(s: &Spec) -> Value {
    json!({"plus": s.plus, "zero": s.zero, "fill": s.fill.map(|c| c as i64).unwrap_or(-1), "align": s.align.map(|c| c.to_string()).unwrap_or("-".to_string()),
           "width": s.width.map(|w| w as i64).unwrap_or(-1), "prec": s.prec.map(|w| w as i64).unwrap_or(-1)})
}

/// amount-type's own comparisons (reference for "same unit" clauses)
pub fn amt_cmp(a: AmountT, b: AmountT) -> Value {
    json!({"eq": a == b, "ne": a != b, "lt": a < b, "le": a <= b, "gt": a > b, "ge": a >= b,
           "pc": ord_s(PartialOrd::partial_cmp(&a, &b))})
}

pub trait QtyOps: Sync + Send {
    fn tname(&self) -> &'static str;
    /// "ref" | "noref" | "single"
    fn kind(&self) -> &'static str;
    fn n_units(&self) -> usize;
    fn unit_id(&self, u: usize) -> String;
    /// everything observable about unit `u` (for the observed registry and the Unit events)
    fn unit_info(&self, u: usize) -> Value;
    fn scale(&self, _u: usize) -> Option<AmountT> {
        None
    }
    fn type_info(&self) -> Value;
    fn consts(&self) -> Value;
    fn new_(&self, via: &str, a: AmountT, u: usize) -> Value;
    fn convert(&self, _a: AmountT, _from: usize, _to: usize) -> Value {
        Value::Null
    }
    fn cmp(&self, a: AmountT, ua: usize, b: AmountT, ub: usize) -> Value;
    fn arith(&self, op: &str, a: AmountT, ua: usize, b: AmountT, ub: usize) -> Value;
    fn scalar(&self, op: &str, a: AmountT, u: usize, k: AmountT) -> Value;
    fn fit(&self, _m: AmountT) -> Value {
        Value::Null
    }
    fn lookup_sym(&self, s: &str) -> Value;
    fn lookup_scale(&self, _k: AmountT) -> Value {
        Value::Null
    }
    fn format(&self, a: AmountT, u: usize, spec: &Spec) -> Value;
    fn format_unit(&self, u: usize, spec: &Spec) -> Value;
}

#[macro_export]
macro_rules! common_ops {
    ($Q:ty, $U:ty) => {
        fn n_units(&self) -> usize {
            self.units.len()
        }
        fn unit_id(&self, u: usize) -> String {
            format!("{:?}", self.units[u])
        }
        fn consts(&self) -> Value {
            let v: Vec<Value> = self
                .consts
                .iter()
                .map(|(n, c)| json!({"c": n, "id": format!("{:?}", c)}))
                .collect();
            Value::Array(v)
        }
        fn new_(&self, via: &str, a: AmountT, u: usize) -> Value {
            let un = self.units[u];
            let r = $crate::ops::guard(|| {
                let q: $Q = match via {
                    "new" => <$Q as Quantity>::new(a, un),
                    "axu" => a * un,
                    _ => un * a,
                };
                json!({"a": enc(Quantity::amount(&q)), "u": format!("{:?}", Quantity::unit(&q))})
            });
            json!({"T": self.name, "via": via, "a": enc(a), "u": format!("{:?}", un), "out": $crate::ops::oc(r)})
        }
        fn scalar(&self, op: &str, a: AmountT, u: usize, k: AmountT) -> Value {
            let un = self.units[u];
            let q: $Q = <$Q as Quantity>::new(a, un);
            let r = $crate::ops::guard(|| {
                let x: $Q = match op {
                    "kxq" => k * q,
                    "qxk" => q * k,
                    _ => q / k,
                };
                json!({"a": enc(Quantity::amount(&x)), "u": format!("{:?}", Quantity::unit(&x))})
            });
            let rf = $crate::ops::guard(|| {
                enc(match op {
                    "kxq" => k * a,
                    "qxk" => a * k,
                    _ => a / k,
                })
            });
            json!({"T": self.name, "op": op, "q": {"a": enc(a), "u": format!("{:?}", un)}, "k": enc(k),
                   "out": $crate::ops::oc(r), "ref": $crate::ops::oc(rf)})
        }
        fn arith(&self, op: &str, a: AmountT, ua: usize, b: AmountT, ub: usize) -> Value {
            let x: $Q = <$Q as Quantity>::new(a, self.units[ua]);
            let y: $Q = <$Q as Quantity>::new(b, self.units[ub]);
            let r = $crate::ops::guard(|| match op {
                "add" => {
                    let z: $Q = x + y;
                    json!({"a": enc(Quantity::amount(&z)), "u": format!("{:?}", Quantity::unit(&z))})
                }
                "sub" => {
                    let z: $Q = x - y;
                    json!({"a": enc(Quantity::amount(&z)), "u": format!("{:?}", Quantity::unit(&z))})
                }
                _ => {
                    let z: AmountT = x / y;
                    json!({"a": enc(z)})
                }
            });
            let rf = $crate::ops::guard(|| {
                enc(match op {
                    "add" => a + b,
                    "sub" => a - b,
                    _ => a / b,
                })
            });
            json!({"T": self.name, "op": op,
                   "x": {"a": enc(a), "u": format!("{:?}", self.units[ua])},
                   "y": {"a": enc(b), "u": format!("{:?}", self.units[ub])},
                   "out": $crate::ops::oc(r), "ref": $crate::ops::oc(rf)})
        }
        fn lookup_sym(&self, s: &str) -> Value {
            let r = $crate::ops::guard(|| {
                let a = <$U as Unit>::from_symbol(s).map(|u| format!("{:?}", u));
                let b = <$Q as Quantity>::unit_from_symbol(s).map(|u| format!("{:?}", u));
                json!({"unit": $crate::ops::opt_s(a), "qty": $crate::ops::opt_s(b)})
            });
            json!({"T": self.name, "by": "sym", "key": $crate::ops::txt(s), "out": $crate::ops::oc(r)})
        }
        fn format(&self, a: AmountT, u: usize, spec: &$crate::fmtgen::Spec) -> Value {
            let q: $Q = <$Q as Quantity>::new(a, self.units[u]);
            let r = $crate::ops::guard(|| $crate::ops::txt(&$crate::fmtgen::apply(&q, spec)));
            // the amount type's own rendering of |a| and of a with the same precision (reference for
            // "unit-less values" and for cross-checking the digit string)
            let rf = $crate::ops::guard(|| $crate::ops::txt(&$crate::fmtgen::apply(&a, spec)));
            let (lo, hi) = $crate::num::f64_neighbours($crate::num::amt_to_f64(a));
            // what the library's own look-up makes of the displayed symbol
            let sym_s = Unit::symbol(&self.units[u]);
            let resolved = $crate::ops::guard(|| {
                let a1 = <$U as Unit>::from_symbol(&sym_s).map(|x| format!("{:?}", x));
                let b1 = <$Q as Quantity>::unit_from_symbol(&sym_s).map(|x| format!("{:?}", x));
                json!({"unit": $crate::ops::opt_s(a1), "qty": $crate::ops::opt_s(b1)})
            });
            json!({"T": self.name, "v": {"a": enc(a), "u": format!("{:?}", self.units[u])},
                   "resolved": $crate::ops::oc(resolved),
                   "sym": $crate::ops::txt(&Unit::symbol(&self.units[u])),
                   "spec": $crate::ops::spec_json(spec), "out": $crate::ops::oc(r), "ref": $crate::ops::oc(rf),
                   "lo": $crate::num::enc_f64(lo), "hi": $crate::num::enc_f64(hi)})
        }
        fn format_unit(&self, u: usize, spec: &$crate::fmtgen::Spec) -> Value {
            let un = self.units[u];
            let r = $crate::ops::guard(|| $crate::ops::txt(&$crate::fmtgen::apply(&un, spec)));
            let sym = Unit::symbol(&un);
            let rf = $crate::ops::guard(|| $crate::ops::txt(&$crate::fmtgen::apply(&sym.as_str(), spec)));
            json!({"T": self.name, "u": format!("{:?}", un), "sym": $crate::ops::txt(&sym),
                   "spec": $crate::ops::spec_json(spec), "out": $crate::ops::oc(r), "ref": $crate::ops::oc(rf)})
        }
    };
}

#[macro_export]
macro_rules! cmp_op {
    ($Q:ty) => {
        fn cmp(&self, a: AmountT, ua: usize, b: AmountT, ub: usize) -> Value {
            let x: $Q = <$Q as Quantity>::new(a, self.units[ua]);
            let y: $Q = <$Q as Quantity>::new(b, self.units[ub]);
            let one = |p: $Q, q: $Q| {
                $crate::ops::oc($crate::ops::guard(|| {
                    json!({"eq": p == q, "ne": p != q, "lt": p < q, "le": p <= q, "gt": p > q, "ge": p >= q,
                           "pc": $crate::ops::ord_s(PartialOrd::partial_cmp(&p, &q))})
                }))
            };
            json!({"T": self.name,
                   "x": {"a": enc(a), "u": format!("{:?}", self.units[ua])},
                   "y": {"a": enc(b), "u": format!("{:?}", self.units[ub])},
                   "ab": one(x, y), "ba": one(y, x),
                   "ref": $crate::ops::amt_cmp(a, b), "refba": $crate::ops::amt_cmp(b, a)})
        }
    };
}

/// Operations of a quantity type WITH reference unit (also used for the amount type itself).
#[macro_export]
macro_rules! ref_ops {
    ($S:ident, $name:expr, $Q:ty, $U:ty, [$(($cn:expr, $c:expr)),* $(,)?]) => {
        pub struct $S {
            name: &'static str,
            units: Vec<$U>,
            consts: Vec<(&'static str, $U)>,
        }
        impl $S {
            pub fn new() -> Self {
                $S { name: $name, units: <$U as Unit>::iter().collect(), consts: vec![$(($cn, $c)),*] }
            }
        }
        impl $crate::ops::QtyOps for $S {
            fn tname(&self) -> &'static str { self.name }
            fn kind(&self) -> &'static str { "ref" }
            $crate::common_ops!($Q, $U);
            $crate::cmp_op!($Q);
            fn scale(&self, u: usize) -> Option<AmountT> {
                Some(LinearScaledUnit::scale(&self.units[u]))
            }
            fn type_info(&self) -> Value {
                let via_qty: Vec<String> = <$Q as Quantity>::iter_units().map(|u| format!("{:?}", u)).collect();
                json!({"T": self.name, "kind": "ref",
                       "ref_unit_q": format!("{:?}", <$Q as HasRefUnit>::REF_UNIT),
                       "ref_unit_u": format!("{:?}", <$U as LinearScaledUnit>::REF_UNIT),
                       "amnt_one": enc(quantities::AMNT_ONE), "amnt_zero": enc(quantities::AMNT_ZERO),
                       "iter_units": via_qty})
            }
            fn unit_info(&self, u: usize) -> Value {
                let un = self.units[u];
                let sc = LinearScaledUnit::scale(&un);
                let (lo, hi) = $crate::num::f64_neighbours($crate::num::amt_to_f64(sc));
                let q = Unit::as_qty(&un);
                let fs = $crate::ops::guard(|| <$U as LinearScaledUnit>::from_scale(sc).map(|x| format!("{:?}", x)));
                let fq = $crate::ops::guard(|| <$Q as HasRefUnit>::unit_from_scale(sc).map(|x| format!("{:?}", x)));
                json!({"T": self.name, "idx": u, "id": format!("{:?}", un),
                       "name": $crate::ops::txt(&Unit::name(&un)), "sym": $crate::ops::txt(&Unit::symbol(&un)),
                       "pfx": $crate::ops::opt_s(Unit::si_prefix(&un).map(|p| format!("{:?}", p))),
                       "pfx_exp": Unit::si_prefix(&un).map(|p| p.exp() as i64).unwrap_or(-999),
                       "scale": enc(sc), "lo": $crate::num::enc_f64(lo), "hi": $crate::num::enc_f64(hi),
                       "is_ref": LinearScaledUnit::is_ref_unit(&un),
                       "as_qty": {"a": enc(Quantity::amount(&q)), "u": format!("{:?}", Quantity::unit(&q))},
                       "from_symbol": $crate::ops::opt_s(<$U as Unit>::from_symbol(&Unit::symbol(&un)).map(|x| format!("{:?}", x))),
                       "from_scale": $crate::ops::opt_s(fs.ok().flatten()), "unit_from_scale": $crate::ops::opt_s(fq.ok().flatten()),
                       "display": $crate::ops::txt(&format!("{}", un))})
            }
            fn convert(&self, a: AmountT, from: usize, to: usize) -> Value {
                let q: $Q = <$Q as Quantity>::new(a, self.units[from]);
                let tu = self.units[to];
                let r = $crate::ops::guard(|| {
                    let c: $Q = HasRefUnit::convert(&q, tu);
                    json!({"a": enc(Quantity::amount(&c)), "u": format!("{:?}", Quantity::unit(&c))})
                });
                let e = $crate::ops::guard(|| enc(HasRefUnit::equiv_amount(&q, tu)));
                json!({"T": self.name, "v": {"a": enc(a), "u": format!("{:?}", self.units[from])},
                       "to": format!("{:?}", tu), "out": $crate::ops::oc(r), "eqv": $crate::ops::oc(e)})
            }
            fn fit(&self, m: AmountT) -> Value {
                let r = $crate::ops::guard(|| {
                    let c: $Q = <$Q as HasRefUnit>::_fit(m);
                    json!({"a": enc(Quantity::amount(&c)), "u": format!("{:?}", Quantity::unit(&c))})
                });
                json!({"T": self.name, "m": enc(m), "out": $crate::ops::oc(r)})
            }
            fn lookup_scale(&self, k: AmountT) -> Value {
                let r = $crate::ops::guard(|| {
                    let a = <$U as LinearScaledUnit>::from_scale(k).map(|u| format!("{:?}", u));
                    let b = <$Q as HasRefUnit>::unit_from_scale(k).map(|u| format!("{:?}", u));
                    json!({"unit": $crate::ops::opt_s(a), "qty": $crate::ops::opt_s(b)})
                });
                json!({"T": self.name, "by": "scale", "key": enc(k), "out": $crate::ops::oc(r)})
            }
        }
    };
}

/// Operations of a quantity type WITHOUT reference unit (several units or a single one).
#[macro_export]
macro_rules! plain_ops {
    (@cmp "single", $Q:ty) => {
        fn cmp(&self, _a: AmountT, _ua: usize, _b: AmountT, _ub: usize) -> Value { Value::Null }
    };
    (@cmp $kind:tt, $Q:ty) => { $crate::cmp_op!($Q); };
    ($S:ident, $name:expr, $kind:tt, $Q:ty, $U:ty, [$(($cn:expr, $c:expr)),* $(,)?]) => {
        pub struct $S {
            name: &'static str,
            units: Vec<$U>,
            consts: Vec<(&'static str, $U)>,
        }
        impl $S {
            pub fn new() -> Self {
                $S { name: $name, units: <$U as Unit>::iter().collect(), consts: vec![$(($cn, $c)),*] }
            }
        }
        impl $crate::ops::QtyOps for $S {
            fn tname(&self) -> &'static str { self.name }
            fn kind(&self) -> &'static str { $kind }
            $crate::common_ops!($Q, $U);
            $crate::plain_ops!(@cmp $kind, $Q);
            fn type_info(&self) -> Value {
                let via_qty: Vec<String> = <$Q as Quantity>::iter_units().map(|u| format!("{:?}", u)).collect();
                json!({"T": self.name, "kind": $kind, "iter_units": via_qty})
            }
            fn unit_info(&self, u: usize) -> Value {
                let un = self.units[u];
                let q = Unit::as_qty(&un);
                json!({"T": self.name, "idx": u, "id": format!("{:?}", un),
                       "name": $crate::ops::txt(&Unit::name(&un)), "sym": $crate::ops::txt(&Unit::symbol(&un)),
                       "pfx": $crate::ops::opt_s(Unit::si_prefix(&un).map(|p| format!("{:?}", p))),
                       "pfx_exp": Unit::si_prefix(&un).map(|p| p.exp() as i64).unwrap_or(-999),
                       "as_qty": {"a": enc(Quantity::amount(&q)), "u": format!("{:?}", Quantity::unit(&q))},
                       "from_symbol": $crate::ops::opt_s(<$U as Unit>::from_symbol(&Unit::symbol(&un)).map(|x| format!("{:?}", x))),
                       "display": $crate::ops::txt(&format!("{}", un))})
            }
        }
    };
}

/// A derived operator instance  L op R -> Res, executed in its four borrow forms.
pub struct BinOp {
    pub op: &'static str, // "mul" | "div"
    pub l: &'static str,
    pub r: &'static str,
    pub res: &'static str,
    pub f: Box<dyn Fn(AmountT, usize, AmountT, usize) -> Value + Sync + Send>,
}

#[macro_export]
macro_rules! inverse_of {
    (*, $z:expr, $y:expr) => { $z / $y };
    (/, $z:expr, $y:expr) => { $z * $y };
}

#[macro_export]
macro_rules! bin_op {
    ($v:expr, $opname:expr, $op:tt, $ln:expr, $L:ty, $LU:ty, $rn:expr, $R:ty, $RU:ty, $resn:expr, $Res:ty) => {
        $v.push($crate::ops::BinOp {
            op: $opname, l: $ln, r: $rn, res: $resn,
            f: Box::new(|a: AmountT, ua: usize, b: AmountT, ub: usize| {
                let lus: Vec<$LU> = <$LU as Unit>::iter().collect();
                let rus: Vec<$RU> = <$RU as Unit>::iter().collect();
                let x: $L = <$L as Quantity>::new(a, lus[ua]);
                let y: $R = <$R as Quantity>::new(b, rus[ub]);
                let show = |z: $Res| json!({"a": enc(Quantity::amount(&z)), "u": format!("{:?}", Quantity::unit(&z))});
                let o = $crate::ops::oc($crate::ops::guard(|| { let z: $Res = x $op y; show(z) }));
                let bl = $crate::ops::oc($crate::ops::guard(|| { let z: $Res = &x $op y; show(z) }));
                let br = $crate::ops::oc($crate::ops::guard(|| { let z: $Res = x $op &y; show(z) }));
                let bb = $crate::ops::oc($crate::ops::guard(|| { let z: $Res = &x $op &y; show(z) }));
                let sa = LinearScaledUnit::scale(&lus[ua]);
                let sb = LinearScaledUnit::scale(&rus[ub]);
                // the inverse operation applied to the ACTUAL result:  (x*y)/y  resp.  (x/y)*y  -> should give x back
                let showl = |z: $L| json!({"a": enc(Quantity::amount(&z)), "u": format!("{:?}", Quantity::unit(&z))});
                let back = $crate::ops::oc($crate::ops::guard(|| {
                    let z: $Res = x $op y;
                    let w: $L = $crate::inverse_of!($op, z, y);
                    showl(w)
                }));
                let kref = $crate::ops::oc($crate::ops::guard(|| enc(sa $op sb)));
                let rf = $crate::ops::oc($crate::ops::guard(|| enc(a $op b)));
                json!({"op": $opname, "L": $ln, "R": $rn, "Res": $resn,
                       "x": {"a": enc(a), "u": format!("{:?}", lus[ua])},
                       "y": {"a": enc(b), "u": format!("{:?}", rus[ub])},
                       "kref": kref, "ref": rf, "out": o, "bl": bl, "br": br, "bb": bb, "back": back})
            }),
        });
    };
}

/// Rate operations over an ordered pair of quantity types (term, per).
pub struct RatePair {
    pub tq: &'static str,
    pub pq: &'static str,
    /// (kind, ta, tu, pm, pu, qa, qu) -> event body; kind: "new" | "vals" | "recip" | "rxq" | "qxr" | "qdr" | "fmt"
    pub f: Box<dyn Fn(&str, AmountT, usize, AmountT, usize, AmountT, usize) -> Value + Sync + Send>,
}

#[macro_export]
macro_rules! rate_pair {
    ($v:expr, $tn:expr, $TQ:ty, $TU:ty, $pn:expr, $PQ:ty, $PU:ty) => {
        $v.push($crate::ops::RatePair {
            tq: $tn, pq: $pn,
            f: Box::new(|kind: &str, ta: AmountT, tu: usize, pm: AmountT, pu: usize, qa: AmountT, qu: usize| {
                let tus: Vec<$TU> = <$TU as Unit>::iter().collect();
                let pus: Vec<$PU> = <$PU as Unit>::iter().collect();
                let comps = |r: &Rate<$TQ, $PQ>| json!({"ta": enc(r.term_amount()), "tu": format!("{:?}", r.term_unit()),
                                                      "pm": enc(r.per_unit_multiple()), "pu": format!("{:?}", r.per_unit())});
                let compsr = |r: &Rate<$PQ, $TQ>| json!({"ta": enc(r.term_amount()), "tu": format!("{:?}", r.term_unit()),
                                                      "pm": enc(r.per_unit_multiple()), "pu": format!("{:?}", r.per_unit())});
                let given = json!({"ta": enc(ta), "tu": format!("{:?}", tus[tu]), "pm": enc(pm), "pu": format!("{:?}", pus[pu])});
                let rate: Rate<$TQ, $PQ> = Rate::new(ta, tus[tu], pm, pus[pu]);
                let mut ev = json!({"TQ": $tn, "PQ": $pn, "kind": kind, "rate": given});
                match kind {
                    "new" => { ev["out"] = $crate::ops::oc($crate::ops::guard(|| comps(&rate))); }
                    "vals" => {
                        ev["out"] = $crate::ops::oc($crate::ops::guard(|| {
                            let t: $TQ = <$TQ as Quantity>::new(ta, tus[tu]);
                            let p: $PQ = <$PQ as Quantity>::new(pm, pus[pu]);
                            comps(&Rate::<$TQ, $PQ>::from_qty_vals(t, p))
                        }));
                    }
                    "recip" => {
                        ev["out"] = $crate::ops::oc($crate::ops::guard(|| compsr(&rate.reciprocal())));
                        ev["twice"] = $crate::ops::oc($crate::ops::guard(|| comps(&rate.reciprocal().reciprocal())));
                    }
                    "rxq" | "qxr" => {
                        let q: $PQ = <$PQ as Quantity>::new(qa, pus[qu]);
                        ev["q"] = json!({"a": enc(qa), "u": format!("{:?}", pus[qu])});
                        ev["out"] = $crate::ops::oc($crate::ops::guard(|| {
                            let z: $TQ = if kind == "rxq" { rate * q } else { q * rate };
                            json!({"a": enc(Quantity::amount(&z)), "u": format!("{:?}", Quantity::unit(&z))})
                        }));
                        // the same through the reciprocal:  q / (1/rate)
                        ev["via_recip"] = $crate::ops::oc($crate::ops::guard(|| {
                            let z: $TQ = q / rate.reciprocal();
                            json!({"a": enc(Quantity::amount(&z)), "u": format!("{:?}", Quantity::unit(&z))})
                        }));
                        // and back:  (rate * q) / rate  should give q again (in the per unit)
                        ev["back"] = $crate::ops::oc($crate::ops::guard(|| {
                            let z: $TQ = rate * q;
                            let w: $PQ = z / rate;
                            json!({"a": enc(Quantity::amount(&w)), "u": format!("{:?}", Quantity::unit(&w))})
                        }));
                    }
                    "qdr" => {
                        let q: $TQ = <$TQ as Quantity>::new(qa, tus[qu]);
                        ev["q"] = json!({"a": enc(qa), "u": format!("{:?}", tus[qu])});
                        ev["out"] = $crate::ops::oc($crate::ops::guard(|| {
                            let z: $PQ = q / rate;
                            json!({"a": enc(Quantity::amount(&z)), "u": format!("{:?}", Quantity::unit(&z))})
                        }));
                        ev["via_recip"] = $crate::ops::oc($crate::ops::guard(|| {
                            let z: $PQ = rate.reciprocal() * q;
                            json!({"a": enc(Quantity::amount(&z)), "u": format!("{:?}", Quantity::unit(&z))})
                        }));
                        ev["back"] = $crate::ops::oc($crate::ops::guard(|| {
                            let z: $PQ = q / rate;
                            let w: $TQ = rate * z;
                            json!({"a": enc(Quantity::amount(&w)), "u": format!("{:?}", Quantity::unit(&w))})
                        }));
                    }
                    _ => {
                        ev["out"] = $crate::ops::oc($crate::ops::guard(|| $crate::ops::txt(&format!("{}", rate))));
                        ev["tsym"] = $crate::ops::txt(&Unit::symbol(&tus[tu]));
                        ev["psym"] = $crate::ops::txt(&Unit::symbol(&pus[pu]));
                        ev["ta_txt"] = $crate::ops::txt(&format!("{}", ta));
                        ev["pm_txt"] = $crate::ops::txt(&format!("{}", pm));
                        ev["pm_is_one"] = json!(pm == quantities::AMNT_ONE);
                    }
                }
                ev
            }),
        });
    };
}

/// Serde round trip of a predefined quantity type (main crate, feature `serde`).
pub struct SerdeOps {
    pub t: &'static str,
    pub f: Box<dyn Fn(AmountT, usize) -> Value + Sync + Send>,
    /// every DECLARED variant name offered to the deserialiser of the unit type
    pub names: Box<dyn Fn() -> Value + Sync + Send>,
}

#[macro_export]
macro_rules! serde_ops {
    ($v:expr, $tn:expr, $Q:ty, $U:ty, [$($dn:expr),* $(,)?]) => {
        $v.push($crate::ops::SerdeOps {
            t: $tn,
            names: Box::new(|| {
                let declared: Vec<&'static str> = vec![$($dn),*];
                let acc: Vec<Value> = declared
                    .iter()
                    .map(|n| {
                        let r = $crate::ops::guard(|| serde_json::from_value::<$U>(json!(n)).map(|z| format!("{:?}", z)).map_err(|e| e.to_string()));
                        let out = match r { Ok(Ok(v)) => json!({"ok": v}), Ok(Err(e)) => json!({"err": e}), Err(p) => json!({"panic": p}) };
                        json!({"name": n, "out": out})
                    })
                    .collect();
                json!({"T": $tn, "accepted": acc})
            }),
            f: Box::new(|a: AmountT, u: usize| {
                let us: Vec<$U> = <$U as Unit>::iter().collect();
                let q: $Q = <$Q as Quantity>::new(a, us[u]);
                let show = |z: &$Q| json!({"a": enc(Quantity::amount(z)), "u": format!("{:?}", Quantity::unit(z))});
                let tree = $crate::ops::guard(|| serde_json::to_value(&q).map_err(|e| e.to_string()));
                let text = $crate::ops::guard(|| serde_json::to_string(&q).map_err(|e| e.to_string()));
                let utree = $crate::ops::guard(|| serde_json::to_value(&us[u]).map_err(|e| e.to_string()));
                let flat = |r: Result<Result<Value, String>, String>| match r { Ok(Ok(v)) => json!({"ok": v}), Ok(Err(e)) => json!({"err": e}), Err(p) => json!({"panic": p}) };
                let flat_t = |r: &Result<Result<Value, String>, String>| match r { Ok(Ok(v)) => json!({"ok": $crate::ops::tree_desc(v)}), Ok(Err(e)) => json!({"err": e}), Err(p) => json!({"panic": p}) };
                let back_tree = match &tree {
                    Ok(Ok(t)) => flat($crate::ops::guard(|| serde_json::from_value::<$Q>(t.clone()).map(|z| show(&z)).map_err(|e| e.to_string()))),
                    _ => json!({"err": "no tree"}),
                };
                let back_text = match &text {
                    Ok(Ok(t)) => flat($crate::ops::guard(|| serde_json::from_str::<$Q>(t).map(|z| show(&z)).map_err(|e| e.to_string()))),
                    _ => json!({"err": "no text"}),
                };
                let uback = match &utree {
                    Ok(Ok(t)) => flat($crate::ops::guard(|| serde_json::from_value::<$U>(t.clone()).map(|z| json!(format!("{:?}", z))).map_err(|e| e.to_string()))),
                    _ => json!({"err": "no unit tree"}),
                };
                let text_v = match text { Ok(Ok(s)) => json!({"ok": $crate::ops::txt(&s)}), Ok(Err(e)) => json!({"err": e}), Err(p) => json!({"panic": p}) };
                json!({"T": $tn, "v": {"a": enc(a), "u": format!("{:?}", us[u])},
                       "tree": flat_t(&tree), "text": text_v, "unit_tree": flat_t(&utree),
                       "back_tree": back_tree, "back_text": back_text, "unit_back": uback})
            }),
        });
    };
}

/// Table conversion over a no-reference-unit type: rows are (from, to, factor, offset).
pub struct TableOps {
    pub t: &'static str,
    /// (rows, a, u, to, use_predefined) -> event body
    pub f: Box<dyn Fn(&[(usize, usize, AmountT, AmountT)], AmountT, usize, usize, bool) -> Value + Sync + Send>,
}

#[macro_export]
macro_rules! table_ops {
    ($v:expr, $tn:expr, $Q:ty, $U:ty, $pre:expr) => {
        $v.push($crate::ops::TableOps {
            t: $tn,
            f: Box::new(|rows: &[(usize, usize, AmountT, AmountT)], a: AmountT, u: usize, to: usize, predefined: bool| {
                use quantities::{ConversionTable, Converter};
                let us: Vec<$U> = <$U as Unit>::iter().collect();
                let q: $Q = <$Q as Quantity>::new(a, us[u]);
                let show = |z: Option<$Q>| match z {
                    Some(z) => json!({"a": enc(Quantity::amount(&z)), "u": format!("{:?}", Quantity::unit(&z))}),
                    None => json!({"none": true}),
                };
                fn run<const N: usize>(us: &[$U], rows: &[(usize, usize, AmountT, AmountT)], q: &$Q, to: $U) -> Option<$Q> {
                    let t = ConversionTable::<$Q, N> {
                        mappings: core::array::from_fn(|i| (us[rows[i].0], us[rows[i].1], rows[i].2, rows[i].3)),
                    };
                    t.convert(q, to)
                }
                let mut rows_used: Vec<(String, String, AmountT, AmountT)> = rows
                    .iter()
                    .map(|r| (format!("{:?}", us[r.0]), format!("{:?}", us[r.1]), r.2, r.3))
                    .collect();
                let out = if predefined {
                    let pre: Option<ConversionTable<$Q, 6>> = $pre;
                    match pre {
                        Some(t) => {
                            rows_used = t.mappings.iter().map(|r| (format!("{:?}", r.0), format!("{:?}", r.1), r.2, r.3)).collect();
                            $crate::ops::oc($crate::ops::guard(|| show(t.convert(&q, us[to]))))
                        }
                        None => return Value::Null,
                    }
                } else {
                    $crate::ops::oc($crate::ops::guard(|| {
                        show(match rows.len() {
                            0 => run::<0>(&us, rows, &q, us[to]),
                            1 => run::<1>(&us, rows, &q, us[to]),
                            2 => run::<2>(&us, rows, &q, us[to]),
                            3 => run::<3>(&us, rows, &q, us[to]),
                            4 => run::<4>(&us, rows, &q, us[to]),
                            5 => run::<5>(&us, rows, &q, us[to]),
                            6 => run::<6>(&us, rows, &q, us[to]),
                            7 => run::<7>(&us, rows, &q, us[to]),
                            _ => run::<8>(&us, &rows[..8], &q, us[to]),
                        })
                    }))
                };
                let rows_j: Vec<Value> = rows_used
                    .iter()
                    .map(|r| {
                        let (f, o) = (r.2, r.3);
                        json!({"from": r.0, "to": r.1, "f": enc(f), "o": enc(o),
                               "ref": $crate::ops::oc($crate::ops::guard(|| enc(a * f + o)))})
                    })
                    .collect();
                json!({"T": $tn, "predefined": predefined, "rows": rows_j,
                       "v": {"a": enc(a), "u": format!("{:?}", us[u])}, "to": format!("{:?}", us[to]), "out": out})
            }),
        });
    };
}

/// Rate pair where one side is the dimensionless amount type: only the operations that exist for it.
#[macro_export]
macro_rules! rate_pair_lite {
    ($v:expr, $tn:expr, $TQ:ty, $TU:ty, $pn:expr, $PQ:ty, $PU:ty) => {
        $v.push($crate::ops::RatePair {
            tq: $tn, pq: $pn,
            f: Box::new(|kind: &str, ta: AmountT, tu: usize, pm: AmountT, pu: usize, qa: AmountT, qu: usize| {
                let tus: Vec<$TU> = <$TU as Unit>::iter().collect();
                let pus: Vec<$PU> = <$PU as Unit>::iter().collect();
                let comps = |r: &Rate<$TQ, $PQ>| json!({"ta": enc(r.term_amount()), "tu": format!("{:?}", r.term_unit()),
                                                      "pm": enc(r.per_unit_multiple()), "pu": format!("{:?}", r.per_unit())});
                let compsr = |r: &Rate<$PQ, $TQ>| json!({"ta": enc(r.term_amount()), "tu": format!("{:?}", r.term_unit()),
                                                      "pm": enc(r.per_unit_multiple()), "pu": format!("{:?}", r.per_unit())});
                let given = json!({"ta": enc(ta), "tu": format!("{:?}", tus[tu]), "pm": enc(pm), "pu": format!("{:?}", pus[pu])});
                let rate: Rate<$TQ, $PQ> = Rate::new(ta, tus[tu], pm, pus[pu]);
                let mut ev = json!({"TQ": $tn, "PQ": $pn, "kind": kind, "rate": given});
                match kind {
                    "new" => { ev["out"] = $crate::ops::oc($crate::ops::guard(|| comps(&rate))); }
                    "vals" => {
                        ev["out"] = $crate::ops::oc($crate::ops::guard(|| {
                            let t: $TQ = <$TQ as Quantity>::new(ta, tus[tu]);
                            let p: $PQ = <$PQ as Quantity>::new(pm, pus[pu]);
                            comps(&Rate::<$TQ, $PQ>::from_qty_vals(t, p))
                        }));
                    }
                    "recip" => {
                        ev["out"] = $crate::ops::oc($crate::ops::guard(|| compsr(&rate.reciprocal())));
                        ev["twice"] = $crate::ops::oc($crate::ops::guard(|| comps(&rate.reciprocal().reciprocal())));
                    }
                    "rxq" => {
                        let q: $PQ = <$PQ as Quantity>::new(qa, pus[qu]);
                        ev["q"] = json!({"a": enc(qa), "u": format!("{:?}", pus[qu])});
                        ev["out"] = $crate::ops::oc($crate::ops::guard(|| {
                            let z: $TQ = rate * q;
                            json!({"a": enc(Quantity::amount(&z)), "u": format!("{:?}", Quantity::unit(&z))})
                        }));
                    }
                    "fmt" => {
                        ev["out"] = $crate::ops::oc($crate::ops::guard(|| $crate::ops::txt(&format!("{}", rate))));
                        ev["tsym"] = $crate::ops::txt(&Unit::symbol(&tus[tu]));
                        ev["psym"] = $crate::ops::txt(&Unit::symbol(&pus[pu]));
                        ev["ta_txt"] = $crate::ops::txt(&format!("{}", ta));
                        ev["pm_txt"] = $crate::ops::txt(&format!("{}", pm));
                        ev["pm_is_one"] = json!(pm == quantities::AMNT_ONE);
                    }
                    _ => return Value::Null,
                }
                ev
            }),
        });
    };
}
