//! Amount encoding (field split, no arithmetic) and amount generators.
use quantities::AmountT;
use serde_json::{json, Value};

#[cfg(feature = "dec")]
pub const BE: &str = "dec";
#[cfg(not(feature = "dec"))]
pub const BE: &str = "f64";

fn limbs(mut m: u128) -> Vec<u32> {
    let mut v = vec![];
    while m > 0 {
        v.push((m % 10000) as u32);
        m /= 10000;
    }
    v
}

pub fn enc_f64(x: f64) -> Value {
    if x.is_nan() {
        return json!({"k":"nan","r":"NaN"});
    }
    if x.is_infinite() {
        return json!({"k":"inf","neg": x < 0.0, "r": if x < 0.0 {"-inf"} else {"inf"}});
    }
    let bits = x.to_bits();
    let neg = (bits >> 63) == 1;
    let e = ((bits >> 52) & 0x7ff) as i64;
    let frac = bits & ((1u64 << 52) - 1);
    let (mut m, mut p) = if e == 0 { (frac, -1074i64) } else { (frac | (1u64 << 52), e - 1075) };
    if m == 0 {
        p = 0;
    } else {
        while m & 1 == 0 {
            m >>= 1;
            p += 1;
        }
    }
    json!({"k":"fin","neg":neg,"m":limbs(m as u128),"p":p,"q":0,"r":format!("{:?}", x)})
}

#[cfg(feature = "dec")]
pub fn enc(x: AmountT) -> Value {
    let c = x.coefficient();
    let n = x.n_frac_digits() as i64;
    json!({"k":"fin","neg": c < 0,"m":limbs(c.unsigned_abs()),"p":0,"q":-n,"r":format!("{}", x)})
}
#[cfg(not(feature = "dec"))]
pub fn enc(x: AmountT) -> Value {
    enc_f64(x)
}

/// Parse the raw representation `r` written by `enc` back to the amount (for replays).
#[cfg(feature = "dec")]
pub fn parse_amt(s: &str) -> Option<AmountT> {
    use core::str::FromStr;
    AmountT::from_str(s).ok()
}
#[cfg(not(feature = "dec"))]
pub fn parse_amt(s: &str) -> Option<AmountT> {
    match s {
        "NaN" => Some(f64::NAN),
        "inf" => Some(f64::INFINITY),
        "-inf" => Some(f64::NEG_INFINITY),
        _ => s.parse::<f64>().ok(),
    }
}

/// Build an amount from (sign, mantissa, exponent): f64: m * 2^e ; decimal: m * 10^e (e <= 0).
#[cfg(not(feature = "dec"))]
pub fn from_parts(neg: bool, m: u64, e: i32) -> AmountT {
    let v = (m as f64) * (2f64).powi(e);
    if neg { -v } else { v }
}
#[cfg(feature = "dec")]
pub fn from_parts(neg: bool, m: u64, e: i32) -> AmountT {
    let c = m as i128;
    let c = if neg { -c } else { c };
    if e <= 0 {
        AmountT::new_raw(c, (-e) as u8)
    } else {
        AmountT::new_raw(c * 10i128.pow(e as u32), 0)
    }
}

#[cfg(not(feature = "dec"))]
pub fn amt_from_f64(x: f64) -> AmountT {
    x
}
/// decimal: nearest value with 18 fractional digits of the *shortest decimal repr* of x
#[cfg(feature = "dec")]
pub fn amt_from_f64(x: f64) -> AmountT {
    use core::str::FromStr;
    let s = format!("{:.18}", x);
    AmountT::from_str(&s).unwrap_or(quantities::AMNT_ZERO)
}

#[cfg(not(feature = "dec"))]
pub fn amt_to_f64(x: AmountT) -> f64 {
    x
}
#[cfg(feature = "dec")]
pub fn amt_to_f64(x: AmountT) -> f64 {
    format!("{}", x).parse::<f64>().unwrap_or(f64::NAN)
}

/// neighbours (lo, hi) of a finite f64 — logged so that the specification can decide
/// "nearest double" and "text lies in the rounding interval" without knowing IEEE.
pub fn f64_neighbours(x: f64) -> (f64, f64) {
    fn up(x: f64) -> f64 {
        if x.is_nan() || x == f64::INFINITY {
            return x;
        }
        if x == 0.0 {
            return f64::from_bits(1);
        }
        let b = x.to_bits();
        if x > 0.0 { f64::from_bits(b + 1) } else { f64::from_bits(b - 1) }
    }
    (-up(-x), up(x))
}

// ---------------------------------------------------------------------------
// deterministic PRNG (xorshift64*), seeded from VERIF_SEED
#[derive(Clone)]
pub struct Rng(pub u64);
impl Rng {
    pub fn new(seed: u64) -> Self {
        Rng(seed.wrapping_mul(0x9E3779B97F4A7C15) ^ 0xD1B54A32D192ED03 | 1)
    }
    pub fn next(&mut self) -> u64 {
        let mut x = self.0;
        x ^= x >> 12;
        x ^= x << 25;
        x ^= x >> 27;
        self.0 = x;
        x.wrapping_mul(0x2545F4914F6CDD1D)
    }
    pub fn below(&mut self, n: u64) -> u64 {
        if n == 0 { 0 } else { self.next() % n }
    }
    pub fn pick<'a, T>(&mut self, v: &'a [T]) -> &'a T {
        &v[self.below(v.len() as u64) as usize]
    }
    pub fn coin(&mut self) -> bool {
        self.next() & 1 == 1
    }
}

/// A random in-range amount with a "long" mantissa.
/// f64: 53 random mantissa bits, binary exponent so that |x| in [2^lo, 2^hi).
/// dec: up to 17 significant digits, `fd` fractional digits.
#[cfg(not(feature = "dec"))]
pub fn rnd_amount(r: &mut Rng, lo: i32, hi: i32) -> AmountT {
    let m = (r.next() >> 11) | (1u64 << 52);
    let e = lo + r.below((hi - lo).max(1) as u64) as i32;
    let v = (m as f64) * (2f64).powi(e - 52);
    if r.coin() { -v } else { v }
}
#[cfg(feature = "dec")]
pub fn rnd_amount(r: &mut Rng, lo: i32, hi: i32) -> AmountT {
    // magnitude 2^lo..2^hi approx -> decimal digits
    let e2 = lo + r.below((hi - lo).max(1) as u64) as i32;
    let mag10 = ((e2 as f64) * 0.30103).floor() as i32; // |x| ~ 10^mag10
    let nd = 1 + r.below(17) as i32; // significant digits
    let mut m: u64 = 0;
    for i in 0..nd {
        let d = if i == 0 { 1 + r.below(9) } else { r.below(10) };
        m = m * 10 + d;
    }
    // value = m * 10^(mag10 - nd + 1)
    let mut e = mag10 - nd + 1;
    let mut mm = m as i128;
    while e < -18 {
        mm /= 10;
        e += 1;
    }
    if mm == 0 {
        mm = 1;
    }
    let c = if r.coin() { -mm } else { mm };
    if e <= 0 { AmountT::new_raw(c, (-e) as u8) } else { AmountT::new_raw(c * 10i128.pow(e as u32), 0) }
}

/// Fixed "structured adversarial" amounts (finite, moderate).
pub fn base_amounts() -> Vec<AmountT> {
    let mut v: Vec<AmountT> = vec![];
    let pos: Vec<AmountT> = {
        #[cfg(not(feature = "dec"))]
        {
            vec![1.0, 2.5, 0.1, 3.0, 7.25, 1e-3, 1234.5678, 0.30000000000000004, 1.2345678901234567, 98765.43210987654, 1e6, 6.02214076e3, 12.0, 36.0, 5280.0,
                 1e15, 9007199254740993.0, 1e-12, 3.3e100, 7.7e-100, 4503599627370497.5, 1e22]
        }
        #[cfg(feature = "dec")]
        {
            use quantities::{Dec, Decimal};
            vec![Dec!(1), Dec!(2.5), Dec!(0.1), Dec!(3), Dec!(7.25), Dec!(0.001), Dec!(1234.5678), Dec!(0.300000000000000004), Dec!(1.234567890123456789), Dec!(98765.43210987654321), Dec!(1000000), Dec!(6022.14076), Dec!(12), Dec!(36), Dec!(5280),
                 Dec!(1000000000000000), Dec!(9007199254740993), Dec!(0.000000000001), Dec!(123456789012.123456789012345678), Dec!(0.000000000000000007)]
        }
    };
    v.push(quantities::AMNT_ZERO);
    for p in pos {
        v.push(p);
        v.push(-p);
    }
    v
}

pub fn zero() -> AmountT {
    quantities::AMNT_ZERO
}
pub fn one() -> AmountT {
    quantities::AMNT_ONE
}
pub fn small_int(n: i64) -> AmountT {
    from_parts(n < 0, n.unsigned_abs(), 0)
}
