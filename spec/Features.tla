------------------------------ MODULE Features ------------------------------
(***************************************************************************)
(* The configuration machine (C19).  State: the set of enabled quantity     *)
(* features; transition: enable one more.  Rules in FeatureRules.tla.      *)
(***************************************************************************)
EXTENDS FeatureRules

\* state machine: enable features one at a time
VARIABLE on
FInit == on = {}
FNext == \E f \in Feat \ on : on' = on \cup {f}
FSpec == FInit /\ [][FNext]_on

AlwaysBuilds == Builds(on)
\* the exposed API (set of available quantity modules) only grows
Monotone == [][Closure(on) \subseteq Closure(on')]_on
\* every quantity exposed together with the operands of its derivation
SelfContained == \A m \in Closure(on) : Uses[m] \subseteq Closure(on)
=============================================================================
