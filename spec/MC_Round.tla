------------------------------ MODULE MC_Round ------------------------------
(***************************************************************************)
(* Toy rounding back-end: fixed point with two fractional digits, round    *)
(* half even - a scaled-down fpdec::Decimal - so that TLC can explore      *)
(* EXHAUSTIVELY what rounding does to the properties that must hold        *)
(* despite rounding.  Amounts are integers h meaning h/100; unit scales    *)
(* are small rationals.  The actions are the algorithm-level               *)
(* transcriptions of equiv_amount / eq / partial_cmp:                      *)
(*   Old* : the right operand is converted into the left operand's unit    *)
(*          (the code before the repair ce508e5) - order dependent;        *)
(*   New* : both orders compare in the unit with the smaller scale.        *)
(* State = an ordered pair of values; every pair of the domain is an       *)
(* initial state, the properties are state invariants.                     *)
(***************************************************************************)
EXTENDS Integers, TLC

CONSTANT MaxH            \* amounts range over -MaxH..MaxH hundredths
\* unit scales as <<numerator, denominator>>; units 3 and 4 share a scale (distinct units, same scale)
Scales == <<<<1, 4>>, <<1, 1>>, <<6, 1>>, <<5, 2>>, <<5, 2>>, <<254, 100>>>>
Unit == DOMAIN Scales
VARIABLES x, y           \* values [u, h]

Abs(n) == IF n < 0 THEN -n ELSE n
Sgn(n) == IF n < 0 THEN -1 ELSE IF n > 0 THEN 1 ELSE 0
\* round n/d (d > 0) to the nearest integer, ties to even
RoundHE(n, d) ==
    LET a == Abs(n)
        q == a \div d
        r == a % d
        up == (2 * r > d) \/ (2 * r = d /\ q % 2 = 1)
    IN  Sgn(n) * (IF up THEN q + 1 ELSE q)

\* unit.ratio(other) = scale(u)/scale(v), rounded to two digits (in hundredths)
RatioH(u, v) == RoundHE(100 * Scales[u][1] * Scales[v][2], Scales[u][2] * Scales[v][1])
\* equiv_amount: same unit => the amount itself, else ratio * amount rounded
Equiv(v, u) == IF v.u = u THEN v.h ELSE RoundHE(RatioH(v.u, u) * v.h, 100)
ScaleGe(u, v) == Scales[u][1] * Scales[v][2] >= Scales[v][1] * Scales[u][2]

Cmp3(a, b) == IF a < b THEN -1 ELSE IF a = b THEN 0 ELSE 1
OldEq(a, b)  == a.h = Equiv(b, a.u)
OldCmp(a, b) == IF a.u = b.u THEN Cmp3(a.h, b.h) ELSE Cmp3(a.h, Equiv(b, a.u))
NewEq(a, b)  == IF ScaleGe(a.u, b.u) THEN Equiv(a, b.u) = b.h ELSE a.h = Equiv(b, a.u)
NewCmp(a, b) == IF a.u = b.u THEN Cmp3(a.h, b.h)
                ELSE IF ScaleGe(a.u, b.u) THEN Cmp3(Equiv(a, b.u), b.h) ELSE Cmp3(a.h, Equiv(b, a.u))

Init == x \in [u : Unit, h : -MaxH..MaxH] /\ y \in [u : Unit, h : -MaxH..MaxH]
Next == UNCHANGED <<x, y>>

---------------------------------------------------------------------------
\* C02 (iii): answers do not depend on operand order
NewSymmetric == /\ NewEq(x, y) = NewEq(y, x)
                /\ NewCmp(y, x) = -NewCmp(x, y)
                /\ (NewCmp(x, y) = 0) = NewEq(x, y)
OldSymmetric == /\ OldEq(x, y) = OldEq(y, x)
                /\ OldCmp(y, x) = -OldCmp(x, y)
\* C02 (ii): same unit => the amount type's own comparison
SameUnitPlain == x.u = y.u => NewEq(x, y) = (x.h = y.h) /\ NewCmp(x, y) = Cmp3(x.h, y.h)

\* C02 (i): beyond the rounding error of one conversion the answer is the exact order of the magnitudes.
\* Exact magnitudes M = h*n/d ; compared by cross multiplication.  The separation threshold is the
\* specification's decimal tolerance model with delta = 1/100:  D > Kd*delta*(s_p + |q| s_p + 1)
\* for both conversion directions (Amount.tla / Quantities.tla CmpSeparated), Kd = 4.
Kd == 4
MagNum(v, w) == v.h * Scales[v.u][1] * Scales[w.u][2]      \* magnitude of v over the common denominator
ExactCmp(a, b) == Cmp3(MagNum(a, b), MagNum(b, a))
\* D > Kd*(1/100)*(sp*(1 + |q|/100) + 1), everything multiplied by 100*100*den(sa)*den(sb)
Separated(a, b) ==
    LET na == Scales[a.u][1]  da == Scales[a.u][2]
        nb == Scales[b.u][1]  db == Scales[b.u][2]
        D  == Abs(MagNum(a, b) - MagNum(b, a)) * 100               \* |Ma - Mb| * 100*100*da*db
        one(np, dp, dq, qh) == Kd * (np * dq * (100 + Abs(qh)) + 100 * dp * dq)   \* over 100*100*dp*dq
    IN  D > one(na, da, db, b.h) /\ D > one(nb, db, da, a.h)
OrderCorrectWhenSeparated ==
    (x.u # y.u /\ Separated(x, y)) =>
        /\ NewCmp(x, y) = ExactCmp(x, y)
        /\ NewEq(x, y) = (ExactCmp(x, y) = 0)
\* the clause must not be vacuous: separated pairs with different units exist (checked by coverage / an
\* explicit witness in the cfg's companion assumption)
ASSUME \E a, b \in [u : Unit, h : -3..3] : a.u # b.u /\ Separated(a, b)
\* C01 / C03: the decimal tolerance model of Amount.tla (delta = 1/100 here) is SOUND for the algorithm:
\*   convert y into x's unit:  | r*sx - hy*sy |  <=  Kd*delta*(sx + |hy|*sx + 1)
\*   x + y (result in x's unit): the same bound (the addition itself is exact)
\* everything in hundredths and multiplied through by the denominators dx*dy.
ConvertWithinTolerance ==
    LET nx == Scales[x.u][1]  dx == Scales[x.u][2]
        ny == Scales[y.u][1]  dy == Scales[y.u][2]
        r  == Equiv(y, x.u)                                   \* y expressed in x's unit (hundredths)
        lhs == Abs(r * nx * dy - y.h * ny * dx) * 100        \* |r*sx - hy*sy| * 100*100*dx*dy
        tol == Kd * (nx * dy * (100 + Abs(y.h)) + 100 * dx * dy)
    IN  lhs <= tol
AddWithinTolerance ==
    LET nx == Scales[x.u][1]  dx == Scales[x.u][2]
        ny == Scales[y.u][1]  dy == Scales[y.u][2]
        r  == x.h + Equiv(y, x.u)
        lhs == Abs(r * nx * dy - (x.h * nx * dy + y.h * ny * dx)) * 100
        tol == Kd * (nx * dy * (100 + Abs(y.h)) + 100 * dx * dy)
    IN  lhs <= tol
\* C01: same-unit conversion is the identity, conversion into an equal-scale unit keeps the amount
ConvertIdentity == Equiv(x, x.u) = x.h /\ (\A u \in Unit : Scales[u] = Scales[x.u] => Equiv(x, u) = x.h)
=============================================================================
