-------------------------------- MODULE Macro --------------------------------
(***************************************************************************)
(* The macro machine, static part (C12): which quantity definitions are    *)
(* well formed.  A definition is described abstractly: kind of item,       *)
(* fields / generic parameters, the argument of #[quantity(..)], and for   *)
(* every #[unit] / #[ref_unit] attribute the sequence of its token kinds   *)
(*      "I" identifier  "S" string literal  "N" int/float literal          *)
(*      "C" comma       "X" anything else                                  *)
(* ParseArgs is the explicit automaton of the attribute argument parser;   *)
(* Documented is the set of argument forms the documentation lists.        *)
(* MC_Macro checks that the automaton accepts exactly the documented forms *)
(* (plus a trailing comma where no doc string is given) over all token     *)
(* sequences up to a bound.                                                *)
(***************************************************************************)
EXTENDS Types, UnitArgs

---------------------------------------------------------------------------
AttrsOf(d, a) == {i \in DOMAIN d.attrs : d.attrs[i].a = a}
AttrParse(d, i) == IF d.attrs[i].parens THEN ParseArgs(d.attrs[i].toks)
                   ELSE [ok |-> FALSE, pfx |-> FALSE, scale |-> FALSE, doc |-> FALSE]

QArgsOK(q) == q.kind = "none" \/ (q.kind = "binop" /\ q.op \in {"*", "/"} /\ q.l = "ident" /\ q.r = "ident")

WellFormed(d) ==
    LET U == AttrsOf(d, "unit")
        R == AttrsOf(d, "ref_unit")
    IN  /\ d.item = "struct" /\ ~d.fields /\ ~d.generics
        /\ QArgsOK(d.qargs)
        /\ Cardinality(U) >= 1
        /\ Cardinality(R) <= 1
        /\ \A i \in U \cup R : AttrParse(d, i).ok
        /\ IF R # {}
           THEN /\ \A i \in R : ~AttrParse(d, i).scale
                /\ \A i \in U : AttrParse(d, i).scale
           ELSE \A i \in U : ~AttrParse(d, i).scale /\ ~AttrParse(d, i).pfx
        /\ (d.qargs.kind = "binop" => (R # {} /\ d.derived.l_ref /\ d.derived.r_ref))

DeclClauses(e) ==
    LET wf == WellFormed(e.decl)
        rejected == e.verdict = "err"
    IN << Cl("C12.malformed_rejected", ~wf, rejected),
          Cl("C12.error_at_definition", ~wf /\ rejected,
                 \E k \in DOMAIN e.err_lines : e.err_lines[k] >= e.def_first /\ e.err_lines[k] <= e.def_last),
          Cl("C11.wellformed_compiles", wf, ~rejected),
          Cl("C12.defect_class_is_malformed", e.defect # "-", ~wf) >>

(* an item that the declaration / the documented API promises must exist:  *)
(* constants, constructors, operators in every borrow form, trait methods. *)
(* e.prop names the property that promises the item.                       *)
ItemClauses(e) == << Cl(e.prop \o ".item_exists", TRUE, e.verdict = "ok") >>

AnyCompileClauses(e) == IF e.kind = "decl" THEN DeclClauses(e)
                        ELSE IF e.kind = "item" THEN ItemClauses(e)
                        ELSE CompileClauses(e)
=============================================================================
