CONSTANT MaxDepth = 8
CONSTANT AmountInts <- MCAmounts2
CONSTANT Scalars <- MCScalars2
SPECIFICATION Spec
INVARIANT PropertiesHold
INVARIANT ConvertRoundTrip
INVARIANT AddSubInverse
INVARIANT MulDivInverse
CHECK_DEADLOCK FALSE
