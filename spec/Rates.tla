------------------------------- MODULE Rates -------------------------------
(***************************************************************************)
(* C13 rates and C14 table-driven conversions.                             *)
(***************************************************************************)
EXTENDS Text

\* scale of a unit of a type taking part in a rate; types without reference unit act on one unit only
RScale(T, u) == IF OKind(T) = "ref" THEN OScale(T, u) ELSE XOne
RSMin(T)     == IF OKind(T) = "ref" THEN SMin(T) ELSE XOne
RKnown(T, u) == KT(T) /\ KU(T, u)

SameRate(r1, r2) == /\ SameAmount(r1.ta, r2.ta) /\ r1.tu = r2.tu
                    /\ SameAmount(r1.pm, r2.pm) /\ r1.pu = r2.pu

(* rate (ta tu per pm pu) applied to an operand (qa, sq) of the per        *)
(* quantity:   r = ta * (qa*sq/spu) / pm     in unit tu.                   *)
(* clause on | r*pm*spu - ta*qa*sq |.  (QtyDivRate is the same relation    *)
(* with term and per swapped.)                                             *)
RateMulWithin(ta, pm, spu, qa, sq, r) ==
    LET x   == XMul(ta, XMul(qa, sq))
        lhs == XAbsDiff(XMul(r, XMul(pm, spu)), x)
        A == XAbs(ta)  P == XAbs(pm)  Q == XAbs(qa)  R == XAbs(r)
    IN  IF REGIME = "exact" THEN XIsZero(lhs)
        ELSE IF BE = "f64" THEN XLe(lhs, RelTol(x)) \/ XLe(lhs, XAdd(RelTol(x), XScale2(XMul(P, spu), -1073)))
        ELSE \* Kd*d*( |pm|spu + |r||pm|sq + |ta|spu + |ta||pm|spu + |ta qa|spu )
             XLe(lhs, AbsTol(XAdd(XAdd(XAdd(XMul(P, spu), XMul(R, XMul(P, sq))), XMul(A, spu)),
                                  XAdd(XMul(A, XMul(P, spu)), XMul(XMul(A, Q), spu)))))

RateInRange(ta, pm, spu, qa, sq, stu, sminT, sminP) ==
    /\ IsFin(ta) /\ IsFin(pm) /\ IsFin(qa) /\ ~XIsZero(pm)
    /\ InR(BE, ta, XOne) /\ InR(BE, pm, XOne) /\ InR(BE, qa, XOne)
    /\ InR(BE, XMul(qa, sq), XOne) /\ InR(BE, XMul(qa, sq), sminP)
    /\ InR(BE, XMul(qa, sq), spu)                              \* operand in the per unit
    /\ InR(BE, XMul(qa, sq), XMul(spu, pm))                    \* ... divided by the per multiple
    /\ InR(BE, sq, spu) /\ InR(BE, spu, sq)
    /\ InR(BE, XMul(ta, XMul(qa, sq)), XMul(pm, spu))          \* result
    /\ InR(BE, XMul(stu, XMul(ta, XMul(qa, sq))), XMul(pm, spu))               \* result in reference unit
    /\ InR(BE, XMul(stu, XMul(ta, XMul(qa, sq))), XMul(sminT, XMul(pm, spu)))  \* ... in the smallest unit
    /\ InR(BE, XMul(ta, stu), XOne) /\ InR(BE, XMul(pm, spu), XOne)

(* there and back: w should be the operand again, expressed in unit sback  *)
(*   |w*sback - qa*sq| * A  <=  sback*T2 + T1      (DESIGN.md appendix A,  *)
(*   composition of two steps), A = |first factor divided by|              *)
BackWithin(ta, pm, sback, qa, sq, z, w) ==
    LET lhs == XAbsDiff(XMul(w, sback), XMul(qa, sq))
        A == XAbs(ta)  P == XAbs(pm)  Q == XAbs(qa)  Z == XAbs(z)  Wd == XAbs(w)
    IN  IF REGIME = "exact" THEN XIsZero(lhs)
        ELSE IF BE = "f64" THEN XLe(lhs, XMulInt(RelTol(XMul(qa, sq)), 2))
        ELSE LET T1 == AbsTol(XAdd(XAdd(XAdd(XMul(P, sback), XMul(P, XMul(Z, sq))), XMul(A, sback)),
                                   XAdd(XMul(A, XMul(P, sback)), XMul(XMul(A, Q), sback))))
                 T2 == AbsTol(XAdd(XAdd(XAdd(A, XMul(A, Wd)), P), XAdd(XMul(A, P), XMul(P, Z))))
             IN  XLe(XMul(lhs, A), XAdd(XMul(sback, T2), T1))

RateClauses(e) ==
    LET k   == e.kind
        TQ  == e.TQ
        PQ  == e.PQ
        g   == e.rate
        kn  == RKnown(TQ, g.tu) /\ RKnown(PQ, g.pu)
        ok  == Ok(e.out)
        \* operand type / result type for the three arithmetic kinds
        mulk == k \in {"rxq", "qxr"}
        OT  == IF mulk THEN PQ ELSE TQ           \* operand's quantity
        RT  == IF mulk THEN TQ ELSE PQ           \* result's quantity
        ou  == IF mulk THEN g.pu ELSE g.tu       \* the rate's unit on the operand side
        ru  == IF mulk THEN g.tu ELSE g.pu       \* the rate's unit on the result side
        num == IF mulk THEN g.ta ELSE g.pm       \* factor multiplied
        den == IF mulk THEN g.pm ELSE g.ta       \* factor divided by
        arith == k \in {"rxq", "qxr", "qdr"}
        knq == kn /\ arith /\ RKnown(OT, e.q.u)
        mixedNoRef == knq /\ OKind(OT) # "ref" /\ e.q.u # ou
        sq  == RScale(OT, e.q.u)
        so  == RScale(OT, ou)
        sr  == RScale(RT, ru)
        inr == knq /\ ~mixedNoRef /\ RateInRange(num, den, so, e.q.a, sq, sr, RSMin(RT), RSMin(OT))
        allref == OKind(TQ) = "ref" /\ OKind(PQ) = "ref"
        claim == IF BE = "f64" THEN TRUE ELSE inr
    IN << Cl("C13.known", TRUE, kn /\ k \in {"new", "vals", "recip", "rxq", "qxr", "qdr", "fmt"}),
          Cl("C13.components", kn /\ k \in {"new", "vals"}, ok /\ SameRate(e.out.ok, g)),
          Cl("C13.reciprocal", kn /\ k = "recip",
                 /\ ok /\ SameRate(e.out.ok, [ta |-> g.pm, tu |-> g.pu, pm |-> g.ta, pu |-> g.tu])
                 /\ Ok(e.twice) /\ SameRate(e.twice.ok, g)),
          Cl("C18.total.rate", knq /\ allref /\ claim, ok),
          Cl("C10.rate_mixed_units_panic", mixedNoRef, ~ok),
          Cl("C13.defined", knq /\ ~mixedNoRef /\ inr, ok),          \* in-range operands: the operation yields a value
          Cl("C13.unit", knq /\ ok, e.out.ok.u = ru),
          Cl("C13.value", knq /\ ok /\ inr,
                 IsFin(e.out.ok.a) /\ RateMulWithin(num, den, so, e.q.a, sq, e.out.ok.a)),
          Cl("C13.value_published", knq /\ ok /\ inr /\ OKind(OT) = "ref" /\ (Dev(OT, e.q.u) \/ Dev(OT, ou)),
                 IsFin(e.out.ok.a) /\ RateMulWithin(num, den, PScale(OT, ou), e.q.a, PScale(OT, e.q.u), e.out.ok.a)),
          Cl("C13.via_reciprocal", knq /\ inr /\ Has(e, "via_recip") /\ Ok(e.via_recip),
                 e.via_recip.ok.u = ru /\ IsFin(e.via_recip.ok.a)
                 /\ RateMulWithin(num, den, so, e.q.a, sq, e.via_recip.ok.a)),
          Cl("C13.inverse", knq /\ ok /\ inr /\ Has(e, "back") /\ Ok(e.back) /\ ~XIsZero(num) /\ IsFin(e.out.ok.a)
                            /\ InR(BE, num, XOne) /\ InR(BE, XMul(e.q.a, sq), XMul(so, num)),
                 e.back.ok.u = ou /\ IsFin(e.back.ok.a)
                 /\ BackWithin(num, den, so, e.q.a, sq, e.out.ok.a, e.back.ok.a)),
          Cl("C15.rate_display", kn /\ k = "fmt" /\ IsFin(g.ta) /\ IsFin(g.pm),
                 ok /\ e.out.ok.cp = RateFmtExpected(e)),
          Cl("C18.total.rate_display", kn /\ k = "fmt" /\ BE = "f64", ok) >>

---------------------------------------------------------------------------
(* C14  table-driven conversion                                            *)
(* The physical temperature conversions, r = a*fn/fd + on/od, written from *)
(* the definitions (0 degC = 273.15 K, degF = degC*9/5 + 32).              *)
TempPhys == <<
  [from |-> "Kelvin", to |-> "DegreeCelsius",            fn |-> 1, fd |-> 1, on |-> XInt(-27315),  od |-> 100],
  [from |-> "DegreeCelsius", to |-> "Kelvin",            fn |-> 1, fd |-> 1, on |-> XInt(27315),   od |-> 100],
  [from |-> "Kelvin", to |-> "DegreeFahrenheit",         fn |-> 9, fd |-> 5, on |-> XInt(-45967),  od |-> 100],
  [from |-> "DegreeFahrenheit", to |-> "Kelvin",         fn |-> 5, fd |-> 9, on |-> XInt(229835),  od |-> 900],
  [from |-> "DegreeCelsius", to |-> "DegreeFahrenheit",  fn |-> 9, fd |-> 5, on |-> XInt(32),      od |-> 1],
  [from |-> "DegreeFahrenheit", to |-> "DegreeCelsius",  fn |-> 5, fd |-> 9, on |-> XInt(-160),    od |-> 9] >>

PhysRow(f, t) == LET S == {i \in DOMAIN TempPhys : TempPhys[i].from = f /\ TempPhys[i].to = t}
                 IN  IF S = {} THEN 0 ELSE CHOOSE i \in S : TRUE

FirstRow(rows, f, t) == LET S == {i \in DOMAIN rows : rows[i].from = f /\ rows[i].to = t}
                        IN  IF S = {} THEN 0 ELSE CHOOSE i \in S : \A j \in S : i <= j

\* | r - (a*fn/fd + on/od) | <= Tol, multiplied through by fd*od
PhysWithin(a, ph, r) ==
    LET fd == XInt(ph.fd)  od == XInt(ph.od)
        ex  == XAdd(XMul(XMulInt(a, ph.fn), od), XMul(ph.on, fd))          \* exact * fd*od
        lhs == XAbsDiff(XMul(r, XMul(fd, od)), ex)
        B   == XAdd(XMul(XAbs(XMulInt(a, ph.fn)), od), XMul(XAbs(ph.on), fd))
    IN  IF BE = "f64" THEN XLe(lhs, RelTol(B))
        ELSE XLe(lhs, XMul(AbsTol(XAdd(XInt(2), XAbs(a))), XMul(fd, od)))

TableClauses(e) ==
    LET T   == e.T
        kn  == KT(T) /\ KU(T, e.v.u) /\ KU(T, e.to)
        ok  == Ok(e.out)
        same == e.v.u = e.to
        i   == FirstRow(e.rows, e.v.u, e.to)
        some == ok /\ ~Has(e.out.ok, "none")
        isTemp == e.predefined /\ T = "Temperature"
        ph  == PhysRow(e.v.u, e.to)
        a   == e.v.a
        inr == IsFin(a) /\ InR(BE, a, XOne)
    IN << Cl("C14.known", TRUE, kn),
          Cl("C14.same_unit", kn /\ same, some /\ SameQty(e.out.ok, e.v)),
          Cl("C14.first_row", kn /\ ~same /\ i # 0,
                 IF Ok(e.rows[i].ref) THEN some /\ e.out.ok.u = e.to /\ SameAmount(e.out.ok.a, e.rows[i].ref.ok)
                 ELSE ~ok),
          Cl("C14.no_entry", kn /\ ~same /\ i = 0, ok /\ Has(e.out.ok, "none")),
          Cl("C14.temperature_covers", kn /\ isTemp /\ ~same, i # 0 /\ ph # 0),
          Cl("C14.temperature_physical", kn /\ isTemp /\ ~same /\ i # 0 /\ ph # 0 /\ some /\ inr,
                 IsFin(e.out.ok.a) /\ PhysWithin(a, TempPhys[ph], e.out.ok.a)),
          \* decimal: in claim when the amount is in range and the amount type's own a*f + o of the row that
          \* applies is defined (an overflow there is the amount type's, not the table's)
          Cl("C18.total.table", kn /\ (BE = "f64" \/ (inr /\ (same \/ i = 0 \/ Ok(e.rows[i].ref)))), ok) >>
=============================================================================
