CONSTANT MaxDepth = 2
CONSTANT AmountInts <- MCAmounts1
CONSTANT Scalars <- MCScalars1
SPECIFICATION Spec
INVARIANT PropertiesHold
INVARIANT Emit
INVARIANT ConvertRoundTrip
INVARIANT AddSubInverse
INVARIANT MulDivInverse
CHECK_DEADLOCK FALSE
