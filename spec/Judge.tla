------------------------------- MODULE Judge -------------------------------
(***************************************************************************)
(* One event = one application of an operation of the specification.       *)
(* Clauses(e) dispatches on the event kind to the clause family of that    *)
(* operation.  Used by Trace.tla (events recorded from the real code) and  *)
(* by Calc.tla (events produced by the specification's own calculator      *)
(* machine, judged as invariants while TLC explores it).                   *)
(***************************************************************************)
EXTENDS Config

ClausesOf(e) ==
    CASE e.ev = "Header"  -> <<>>
      [] e.ev = "Convert" -> ConvertClauses(e)
      [] e.ev = "Type"    -> TypeClauses(e)
      [] e.ev = "Unit"    -> UnitClauses(e)
      [] e.ev = "Cmp"     -> CmpClauses(e)
      [] e.ev = "Arith"   -> ArithClauses(e)
      [] e.ev = "Scalar"  -> ScalarClauses(e)
      [] e.ev = "New"     -> NewClauses(e)
      [] e.ev = "Derived" -> DerivedClauses(e)
      [] e.ev = "Fit"     -> FitClauses(e)
      [] e.ev = "Lookup"  -> LookupClauses(e)
      [] e.ev = "Rate"    -> RateClauses(e)
      [] e.ev = "Table"   -> TableClauses(e)
      [] e.ev = "Format"  -> FormatClauses(e)
      [] e.ev = "FormatUnit" -> FormatUnitClauses(e)
      [] e.ev = "Serde"   -> SerdeClauses(e)
      [] e.ev = "SerdeNames" -> SerdeNameClauses(e)
      [] e.ev = "SI"      -> SIClauses(e)
      [] e.ev = "Compile" -> AnyCompileClauses(e)
      [] e.ev = "GenBuild" -> GenBuildClauses(e)
      [] e.ev = "Config"  -> ConfigClauses(e)
      [] e.ev = "Derive"  -> DeriveClauses(e)
      [] OTHER -> <<Cl("T.unknown_event", TRUE, FALSE)>>

(* spec -> impl: an event replayed from the calculator machine carries, in  *)
(* e.model, the outcome the specification's algorithm-level action         *)
(* computed; in the exact regime the implementation must return the same.  *)
\* the model computes over the reals: no signed zero, so amounts are compared by value here
\* (bit identity with the amount type's own arithmetic is the business of the 'ref' clauses)
SameValue(x, y) == IsFin(x) /\ IsFin(y) /\ XEq(x, y)
OutSame(o1, o2) ==
    IF Ok(o1) THEN Ok(o2) /\ (IF Has(o1.ok, "u") THEN Has(o2.ok, "u") /\ o1.ok.u = o2.ok.u /\ SameValue(o1.ok.a, o2.ok.a)
                              ELSE IF Has(o1.ok, "a") THEN Has(o2.ok, "a") /\ ~Has(o2.ok, "u") /\ SameValue(o1.ok.a, o2.ok.a)
                              ELSE IF Has(o1.ok, "none") THEN Has(o2.ok, "none")
                              ELSE IF Has(o1.ok, "unit") THEN Has(o2.ok, "unit") /\ o1.ok.unit = o2.ok.unit /\ o1.ok.qty = o2.ok.qty
                              ELSE Has(o2.ok, "k") /\ Has(o1.ok, "k") /\ SameValue(o1.ok, o2.ok))
    ELSE ~Ok(o2)
CmpOutSame(o1, o2) == IF Ok(o1) THEN Ok(o2) /\ SameCmp(o1.ok, o2.ok) ELSE ~Ok(o2)
ModelPrefix(e) ==
    CASE e.ev = "Convert" -> "C01"
      [] e.ev = "Cmp"     -> IF IsRefT(e.T) THEN "C02" ELSE "C10"
      [] e.ev = "Arith"   -> IF IsRefT(e.T) THEN "C03" ELSE "C10"
      [] e.ev = "Derived" -> "C04"
      [] e.ev = "Fit"     -> "C05"
      [] e.ev = "Lookup"  -> "C09"
      [] e.ev = "Rate"    -> "C13"
      [] e.ev = "Table"   -> "C14"
      [] OTHER            -> "C08"
ModelClauses(e) ==
    IF ~Has(e, "model") THEN <<>>
    ELSE << Cl(ModelPrefix(e) \o ".as_model", TRUE,
               /\ (Has(e.model, "out") => OutSame(e.out, e.model.out))
               /\ (Has(e.model, "eqv") => OutSame(e.eqv, e.model.eqv))
               /\ (Has(e.model, "ab")  => CmpOutSame(e.ab, e.model.ab) /\ CmpOutSame(e.ba, e.model.ba))),
            Cl("C05.as_model", e.ev = "Derived", OutSame(e.out, e.model.out)) >>

Clauses(e) == ClausesOf(e) \o ModelClauses(e)

AllOk(e) == LET cs == Clauses(e) IN \A i \in DOMAIN cs : cs[i].ok
Failing(e) == LET cs == Clauses(e) IN {cs[i].id : i \in {j \in DOMAIN cs : ~cs[j].ok}}
=============================================================================
