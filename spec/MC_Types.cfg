CONSTANT MaxDefs = 3
SPECIFICATION Spec
INVARIANT DimSound
INVARIANT Related
INVARIANT Functional
INVARIANT NumberOverQuantity
CHECK_DEADLOCK FALSE
