------------------------------- MODULE Config -------------------------------
(* C19 clauses on configuration events (static Cargo.toml / module edges,   *)
(* cargo builds of feature configurations, operation corpus in minimal and  *)
(* full configuration).                                                     *)
EXTENDS Macro, FeatureRules

\* observed relations arrive as sequences of [f, deps]
ObsRel(seq) == [f \in Feat |-> IF \E i \in DOMAIN seq : seq[i].f = f
                               THEN LET i == CHOOSE i \in DOMAIN seq : seq[i].f = f IN Range(seq[i].deps) \cap Feat
                               ELSE {}]
ObsFeatures(seq) == {seq[i].f : i \in DOMAIN seq}

ConfigClauses(e) ==
    LET k == e.kind
        R == ObsRel(e.requires)
        U == ObsRel(e.uses)
    IN << Cl("C19.known", TRUE, k \in {"static", "build", "corpus"}),
          Cl("C19.features_exist", k = "static", Feat \subseteq ObsFeatures(e.requires)),
          Cl("C19.requires_operands", k = "static", \A f \in Feat : Uses[f] \subseteq ClosureUnder(R, {f})),
          Cl("C19.modules_self_contained", k = "static", \A f \in Feat : U[f] \subseteq ClosureUnder(R, {f})),
          Cl("C19.every_set_builds", k = "static", \A f \in Feat : BuildsUnder(R, U, {f})),
          Cl("C19.builds", k = "build", e.verdict = "ok"),
          Cl("C19.results_independent_of_features", k = "corpus", e.same /\ e.n > 0) >>
=============================================================================
