------------------------------ MODULE MC_Types ------------------------------
(***************************************************************************)
(* C06 / C04 (type of the result): the macro machine as a state machine.   *)
(* State: the environment - the sequence of definitions accepted so far.   *)
(* Transition Define(d): a derived quantity  T = l op r  over the types    *)
(* already defined (three base types, and the dimensionless amount type 0  *)
(* as a possible left operand of "/"), generating the operator instances   *)
(* of codegen_impl_mul_div_qties.  Every base type gets an independent     *)
(* dimension vector; a derived type the sum / difference.                  *)
(*   DimSound : every generated operator is dimensionally correct          *)
(*   Related  : operators exist only between types related by a definition *)
(*   Coherent environments have a functional operator table; the others    *)
(*   are exactly those that the predicate Incoherent flags (rustc E0119).  *)
(***************************************************************************)
EXTENDS Integers, Sequences, FiniteSets, TLC
CONSTANT MaxDefs
VARIABLE env                 \* sequence of [op, l, r]; the i-th definition defines type 3 + i
Base == {1, 2, 3}
Amount == 0
Types == Base \cup {3 + i : i \in DOMAIN env}

RECURSIVE Dim(_)
Dim(t) == IF t = Amount THEN <<0, 0, 0>>
          ELSE IF t \in Base THEN [i \in 1..3 |-> IF i = t THEN 1 ELSE 0]
          ELSE LET d == env[t - 3]
                   a == Dim(d.l)  b == Dim(d.r)
               IN  [i \in 1..3 |-> IF d.op = "mul" THEN a[i] + b[i] ELSE a[i] - b[i]]

OpsOf(T, d) ==
    IF d.op = "mul"
    THEN {[op |-> "mul", l |-> d.l, r |-> d.r, res |-> T], [op |-> "mul", l |-> d.r, r |-> d.l, res |-> T],
          [op |-> "div", l |-> T, r |-> d.r, res |-> d.l], [op |-> "div", l |-> T, r |-> d.l, res |-> d.r]}
    ELSE {[op |-> "div", l |-> d.l, r |-> d.r, res |-> T], [op |-> "mul", l |-> T, r |-> d.r, res |-> d.l],
          [op |-> "mul", l |-> d.r, r |-> T, res |-> d.l], [op |-> "div", l |-> d.l, r |-> T, res |-> d.r]}
Ops == UNION {OpsOf(3 + i, env[i]) : i \in DOMAIN env}

\* the impls every quantity type gets anyway: Q*Amount, Amount*Q, Q/Amount -> Q ; Q/Q -> Amount
Builtin == {[op |-> "mul", l |-> t, r |-> Amount, res |-> t] : t \in Types}
      \cup {[op |-> "mul", l |-> Amount, r |-> t, res |-> t] : t \in Types}
      \cup {[op |-> "div", l |-> t, r |-> Amount, res |-> t] : t \in Types}
      \cup {[op |-> "div", l |-> t, r |-> t, res |-> Amount] : t \in Types}
Key(o) == <<o.op, o.l, o.r>>
\* a definition generates an impl for a (trait, Self, Rhs) triple that already has one
Incoherent == \/ \E o1, o2 \in Ops : Key(o1) = Key(o2) /\ o1.res # o2.res
              \/ \E o \in Ops, b \in Builtin : Key(o) = Key(b)
              \/ \E i, j \in DOMAIN env : i < j /\ OpsOf(3 + i, env[i]) \cap {[o EXCEPT !.res = 3 + i] : o \in OpsOf(3 + j, env[j])} # {}
              \/ \E i, j \in DOMAIN env : i < j /\ {Key(o) : o \in OpsOf(3 + i, env[i])} \cap {Key(o) : o \in OpsOf(3 + j, env[j])} # {}

Init == env = <<>>
Define(d) == env' = Append(env, d)
Next == /\ Len(env) < MaxDefs
        /\ \E op \in {"mul", "div"}, l \in Types \cup {Amount}, r \in Types :
              /\ (l = Amount => op = "div")        \* AmountT may only be a dividend (Frequency = AmountT / Duration)
              /\ Define([op |-> op, l |-> l, r |-> r])
Spec == Init /\ [][Next]_env

Add(a, b) == [i \in 1..3 |-> a[i] + b[i]]
Sub(a, b) == [i \in 1..3 |-> a[i] - b[i]]
DimSound == \A o \in Ops : Dim(o.res) = IF o.op = "mul" THEN Add(Dim(o.l), Dim(o.r)) ELSE Sub(Dim(o.l), Dim(o.r))
Related  == \A o \in Ops : \E i \in DOMAIN env : {o.l, o.r, o.res} \subseteq {3 + i, env[i].l, env[i].r}
\* in a coherent environment the operator table (with the built-in impls) is a function of (op, l, r)
Functional == ~Incoherent => \A o1, o2 \in Ops \cup Builtin : Key(o1) = Key(o2) => o1.res = o2.res
\* a bare number divided by a quantity exists only for declared divisors
NumberOverQuantity == \A o \in Ops : (o.op = "div" /\ o.l = Amount) => \E i \in DOMAIN env : env[i].l = Amount /\ o.r \in {env[i].r, 3 + i}
=============================================================================
