------------------------------ MODULE MC_Macro ------------------------------
(* Model checking of the attribute-argument automaton: over ALL token-kind  *)
(* sequences up to length MaxLen it accepts exactly the documented forms    *)
(* (plus a trailing comma after a form without doc string), and the flags   *)
(* it reports agree with the form.  State = the token sequence built so far *)
EXTENDS UnitArgs, FiniteSets, TLC
CONSTANT MaxLen
Tok == {"I", "S", "N", "C", "X"}
VARIABLE t

Init == t = <<>>
Next == Len(t) < MaxLen /\ \E k \in Tok : t' = Append(t, k)

AcceptsExactlyDocumented == ParseArgs(t).ok <=> t \in DocumentedOrTrailingComma
StripComma(s) == IF s # <<>> /\ s[Len(s)] = "C" THEN SubSeq(s, 1, Len(s) - 1) ELSE s
FlagsAgree ==
    ParseArgs(t).ok =>
       LET f == StripComma(t)
           r == ParseArgs(t) IN
       /\ r.pfx   = (Len(f) >= 5 /\ f[5] = "I")
       /\ r.scale = (\E i \in DOMAIN f : f[i] = "N")
       /\ r.doc   = (Len(f) > 3 /\ f[Len(f)] = "S")
=============================================================================
