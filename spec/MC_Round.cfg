CONSTANT MaxH = 40
INIT Init
NEXT Next
INVARIANT NewSymmetric
INVARIANT SameUnitPlain
INVARIANT OrderCorrectWhenSeparated
INVARIANT ConvertIdentity
CHECK_DEADLOCK FALSE
INVARIANT ConvertWithinTolerance
INVARIANT AddWithinTolerance
