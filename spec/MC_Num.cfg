INIT Init
NEXT Next
INVARIANT Hom
INVARIANT SignedHom
INVARIANT BigOnes
CHECK_DEADLOCK FALSE
