------------------------------- MODULE Trace -------------------------------
(***************************************************************************)
(* Trace validation: every event recorded from the real code (one public   *)
(* call each, logged at the call's return, panic path included) is judged  *)
(* by the relation of the corresponding action of the specification.       *)
(*                                                                         *)
(* "Record, do not block": an event is a complete call of a pure function, *)
(* so the step that consumes it is always enabled; it evaluates the        *)
(* clauses of the event's action and prints "BAD <line> <clause>" for       *)
(* each clause that is false, and <<"H", line, {clauses whose antecedent    *)
(* held}>> (vacuity control; counted by the orchestrator).  The            *)
(* POSTCONDITION demands that the whole trace was consumed.                *)
(***************************************************************************)
EXTENDS Judge

Rec == Rec0

VARIABLE l

TraceInit == l = 1

\* consume one event per step
TraceNext == l <= Len(Rec) /\ l' = l + 1

TraceSpec == TraceInit /\ [][TraceNext]_l

(* The event consumed by the step that led to the current state is judged  *)
(* here, as a state predicate (TLC caches LET definitions in state-level   *)
(* evaluation; in action-level evaluation it re-evaluates them at every    *)
(* use, which is exponentially slower for nested definitions).  The        *)
(* predicate is always TRUE: it records, it does not block.                *)
\* " id1 id2 ..." of the clauses whose antecedent held (one line of output per event)
RECURSIVE HitIds(_, _)
HitIds(cs, i) == IF i > Len(cs) THEN ""
                 ELSE (IF cs[i].ante THEN " " \o cs[i].id ELSE "") \o HitIds(cs, i + 1)

Judged ==
    l = 1 \/
    LET k   == l - 1
        cs  == Clauses(Rec[k])
        bad == {i \in DOMAIN cs : ~cs[i].ok}
    IN  /\ \A i \in bad : PrintT("BAD " \o ToString(k) \o " " \o cs[i].id)
        /\ PrintT("H " \o ToString(k) \o HitIds(cs, 1))

TraceAccepted ==
    LET d == TLCGet("stats").diameter IN
    IF d = Len(Rec) + 1 THEN TRUE
    ELSE Print(<<"TRACE NOT CONSUMED", d, Len(Rec)>>, FALSE)
=============================================================================
