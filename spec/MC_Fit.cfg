CONSTANT MaxUnits = 5
INIT Init
NEXT Next
INVARIANT EligibleNonEmpty
INVARIANT AlgoIsBestFit
CHECK_DEADLOCK FALSE
