SPECIFICATION TraceSpec
INVARIANT Judged
POSTCONDITION TraceAccepted
CHECK_DEADLOCK FALSE
