------------------------------ MODULE BigNat ------------------------------
(***************************************************************************)
(* Arbitrary-precision naturals for TLC, whose integers are 32-bit.        *)
(* A BigNat is a little-endian sequence of limbs in 0..9999 without        *)
(* trailing (most significant) zero limbs; <<>> is zero.  Every limb       *)
(* operation stays below 2^31: limb*limb + carry < 10^8 + 10^4.            *)
(***************************************************************************)
EXTENDS Integers, Sequences

BASE == 10000

IsLimbSeq(s) == \A i \in 1..Len(s) : s[i] \in 0..(BASE - 1)
IsBigNat(s)  == IsLimbSeq(s) /\ (s # <<>> => s[Len(s)] # 0)

RECURSIVE BnTrim(_)
BnTrim(s) == IF s = <<>> THEN s
             ELSE IF s[Len(s)] = 0 THEN BnTrim(SubSeq(s, 1, Len(s) - 1))
             ELSE s

RECURSIVE BnFromInt(_)
BnFromInt(n) == IF n = 0 THEN <<>> ELSE <<n % BASE>> \o BnFromInt(n \div BASE)

BnZero == <<>>
BnOne  == <<1>>
BnIsZero(a) == a = <<>>

\* value of a BigNat known to fit a TLC integer (at most 2 limbs + small third)
RECURSIVE BnToIntI(_, _)
BnToIntI(a, i) == IF i > Len(a) THEN 0 ELSE a[i] + BASE * BnToIntI(a, i + 1)
BnToInt(a) == BnToIntI(a, 1)
BnFitsInt(a) == Len(a) <= 2

---------------------------------------------------------------------------
RECURSIVE BnCmpI(_, _, _)
BnCmpI(a, b, i) == IF i = 0 THEN 0
                   ELSE IF a[i] < b[i] THEN -1
                   ELSE IF a[i] > b[i] THEN 1
                   ELSE BnCmpI(a, b, i - 1)
\* -1, 0, 1
BnCmp(a, b) == IF Len(a) < Len(b) THEN -1
               ELSE IF Len(a) > Len(b) THEN 1
               ELSE BnCmpI(a, b, Len(a))

Limb(a, i) == IF i <= Len(a) THEN a[i] ELSE 0

RECURSIVE BnAddI(_, _, _, _)
BnAddI(a, b, i, c) ==
    IF i > Len(a) /\ i > Len(b) THEN (IF c = 0 THEN <<>> ELSE <<c>>)
    ELSE LET t == Limb(a, i) + Limb(b, i) + c
         IN  <<t % BASE>> \o BnAddI(a, b, i + 1, t \div BASE)
BnAdd(a, b) == IF a = <<>> THEN b ELSE IF b = <<>> THEN a ELSE BnAddI(a, b, 1, 0)

\* a - b for a >= b
RECURSIVE BnSubI(_, _, _, _)
BnSubI(a, b, i, br) ==
    IF i > Len(a) THEN <<>>
    ELSE LET t == a[i] - Limb(b, i) - br
         IN  IF t < 0 THEN <<t + BASE>> \o BnSubI(a, b, i + 1, 1)
             ELSE <<t>> \o BnSubI(a, b, i + 1, 0)
BnSub(a, b) == IF b = <<>> THEN a ELSE BnTrim(BnSubI(a, b, 1, 0))

\* a * d for a small factor 0 <= d < BASE
RECURSIVE BnMulSmallI(_, _, _, _)
BnMulSmallI(a, d, i, c) ==
    IF i > Len(a) THEN (IF c = 0 THEN <<>> ELSE <<c>>)
    ELSE LET t == a[i] * d + c
         IN  <<t % BASE>> \o BnMulSmallI(a, d, i + 1, t \div BASE)
BnMulSmall(a, d) == IF d = 0 \/ a = <<>> THEN <<>>
                    ELSE IF d = 1 THEN a ELSE BnMulSmallI(a, d, 1, 0)

BnShift(a, k) == IF a = <<>> \/ k = 0 THEN a ELSE [i \in 1..k |-> 0] \o a

RECURSIVE BnMulI(_, _, _)
BnMulI(a, b, j) == IF j > Len(b) THEN <<>>
                   ELSE BnAdd(BnShift(BnMulSmall(a, b[j]), j - 1), BnMulI(a, b, j + 1))
BnMul(a, b) == IF a = <<>> \/ b = <<>> THEN <<>>
               ELSE IF Len(b) = 1 THEN BnMulSmall(a, b[1])
               ELSE IF Len(a) = 1 THEN BnMulSmall(b, a[1])
               ELSE IF Len(a) >= Len(b) THEN BnMulI(a, b, 1) ELSE BnMulI(b, a, 1)

\* a * 2^k, k >= 0   (2^13 = 8192 < BASE)
RECURSIVE BnMulPow2(_, _)
BnMulPow2(a, k) == IF a = <<>> \/ k = 0 THEN a
                   ELSE IF k >= 13 THEN BnMulPow2(BnMulSmall(a, 8192), k - 13)
                   ELSE BnMulSmall(a, 2 ^ k)

\* a * 10^k, k >= 0
BnMulPow10(a, k) == IF a = <<>> \/ k = 0 THEN a
                    ELSE BnShift(BnMulSmall(a, 10 ^ (k % 4)), k \div 4)

\* a * 5^k, k >= 0   (5^5 = 3125 < BASE)
RECURSIVE BnMulPow5(_, _)
BnMulPow5(a, k) == IF a = <<>> \/ k = 0 THEN a
                   ELSE IF k >= 5 THEN BnMulPow5(BnMulSmall(a, 3125), k - 5)
                   ELSE BnMulSmall(a, 5 ^ k)

\* number of decimal digits (0 for zero)
DigitsOfLimb(x) == IF x >= 1000 THEN 4 ELSE IF x >= 100 THEN 3 ELSE IF x >= 10 THEN 2 ELSE 1
BnDigits(a) == IF a = <<>> THEN 0 ELSE 4 * (Len(a) - 1) + DigitsOfLimb(a[Len(a)])

\* digits (most significant first, each 0..9) -> BigNat ; used for text checks
RECURSIVE BnFromDigitsI(_, _, _)
BnFromDigitsI(ds, i, acc) ==
    IF i > Len(ds) THEN acc
    ELSE BnFromDigitsI(ds, i + 1, BnAdd(BnMulSmall(acc, 10), IF ds[i] = 0 THEN <<>> ELSE <<ds[i]>>))
BnFromDigits(ds) == BnFromDigitsI(ds, 1, <<>>)
=============================================================================
