CONSTANT MaxUnits = 4
INIT Init
NEXT Next
INVARIANT Complete
INVARIANT Ordered
INVARIANT PermutationInvariant
INVARIANT LookupInverse
CHECK_DEADLOCK FALSE
