CONSTANT MaxH = 40
INIT Init
NEXT Next
INVARIANT OldSymmetric
CHECK_DEADLOCK FALSE
