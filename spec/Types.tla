-------------------------------- MODULE Types --------------------------------
(***************************************************************************)
(* C06: which binary operations between quantity types exist, and what     *)
(* their result type is - derived from the DECLARED environment alone      *)
(* (like-with-like rules, scalar rules, and the operator table Ops that    *)
(* the declared derivations generate).  A compiler run on a generated      *)
(* program is an event; its verdict must equal the prediction.             *)
(***************************************************************************)
EXTENDS Rates

TKnown(T) == T = "Amount" \/ DKnownT(T)
OpsFor(op, L, R) == {o \in Ops : o.op = op /\ o.l = L /\ o.r = R}

TypeChecks(op, L, R) ==
    CASE op \in {"add", "sub"} -> L = R
      [] op \in {"eq", "lt"}   -> L = R /\ DKind(L) # "single"
      [] op = "div" -> L = R \/ (R = "Amount") \/ OpsFor("div", L, R) # {}
      [] op = "mul" -> L = "Amount" \/ R = "Amount" \/ OpsFor("mul", L, R) # {}
      [] OTHER -> FALSE

ResultType(op, L, R) ==
    CASE op \in {"add", "sub"} -> L
      [] op \in {"eq", "lt"}   -> "bool"
      [] op = "div" -> IF OpsFor("div", L, R) # {} THEN (CHOOSE o \in OpsFor("div", L, R) : TRUE).res
                       ELSE IF L = R THEN "Amount" ELSE L
      [] op = "mul" -> IF OpsFor("mul", L, R) # {} THEN (CHOOSE o \in OpsFor("mul", L, R) : TRUE).res
                       ELSE IF L = "Amount" THEN R ELSE L
      [] OTHER -> "-"

\* two declarations that would generate the same impl with different outputs (rustc E0119)
Coherent == \A o1, o2 \in Ops : (o1.op = o2.op /\ o1.l = o2.l /\ o1.r = o2.r) => o1.res = o2.res

GenBuildClauses(e) ==
    << Cl("C11.generated_items_compile", TRUE, e.verdict = "ok") >>

\* Derivations declared in the SOURCES that the hand-written catalogue does not know (a new derived quantity):
\* the catalogue is a lower bound, and what such a declaration makes type-check is "related by a declared
\* derivation" in the property's own words.  Reported as a note; everything the catalogue knows is still demanded.
ExtraOps(e) == IF Has(e, "extra")
               THEN UNION {OpsOfDv(e.extra[i].res, [op |-> e.extra[i].op, l |-> e.extra[i].l, r |-> e.extra[i].r]) : i \in DOMAIN e.extra}
               ELSE {}
CompileClauses(e) ==
    LET kn == e.kind = "binop" /\ TKnown(e.L) /\ TKnown(e.R)
        exp == TypeChecks(e.op, e.L, e.R) /\ (e.asc = "-" \/ e.asc = ResultType(e.op, e.L, e.R))
        accepted == e.verdict = "ok"
        byExtra == \E o \in ExtraOps(e) : o.op = e.op /\ o.l = e.L /\ o.r = e.R
    IN << Cl("C06.known", e.kind = "binop", kn),
          Cl("C06.accepts_meaningful", kn /\ exp, accepted),
          Cl("C06.rejects_meaningless", kn /\ ~exp /\ e.asc = "-" /\ ~byExtra, ~accepted),
          Cl("C06.result_type_exact", kn /\ ~exp /\ e.asc # "-" /\ ~byExtra, ~accepted),
          Cl("NOTE.derivation_not_in_catalogue", kn /\ ~exp /\ e.asc = "-", ~byExtra) >>
=============================================================================
