------------------------------ MODULE MC_Small ------------------------------
(***************************************************************************)
(* Three small models (C15, C16, C17).                                     *)
(*  Layout  : the padding algorithm of Quantity::fmt (sign, body, width,   *)
(*            fill, alignment, counted in characters) against the layout   *)
(*            property, over a 3-character alphabet, widths 0..7, all      *)
(*            flags.                                                       *)
(*  SITable : the prefix table of SI.tla is one-to-one in every column and *)
(*            sorted by exponent; look-ups by exponent / abbreviation are  *)
(*            therefore functions with the stated inverse property.        *)
(*  Serde   : for every pair (Ser, De) over small value / text sets,       *)
(*            De o Ser = id implies that Ser is injective (the injectivity *)
(*            clause of C17 follows from the round-trip clauses).          *)
(***************************************************************************)
EXTENDS SI, FiniteSets, TLC

---- \* ---------------------------------------------------------------- Layout
Chars == {1, 2, 3}                 \* 1, 2: body characters, 3: the fill character
Bodies == UNION {[1..k -> {1, 2}] : k \in 1..3}
Signs == {<<>>, <<43>>, <<45>>}
Aligns == {"<", "^", ">", "-"}
VARIABLES sign, body, width, align, zero

RepeatC(c, k) == [i \in 1..k |-> c]
\* algorithm (transcription of the padding code)
Render ==
    LET text == sign \o body
        npad == IF width > Len(text) THEN width - Len(text) ELSE 0
    IN  IF zero THEN sign \o RepeatC(48, npad) \o body
        ELSE LET pre  == IF align = "<" THEN 0 ELSE IF align = "^" THEN npad \div 2 ELSE npad
                 post == npad - pre
             IN  RepeatC(3, pre) \o text \o RepeatC(3, post)

LInit == sign \in Signs /\ body \in Bodies /\ width \in 0..7 /\ align \in Aligns /\ zero \in BOOLEAN
LNext == UNCHANGED <<sign, body, width, align, zero>>

MaxI(a, b) == IF a > b THEN a ELSE b
CountOf(s, P(_)) == Cardinality({i \in DOMAIN s : P(s[i])})
LayoutOK ==
    LET o == Render
        text == sign \o body IN
    /\ Len(o) = MaxI(width, Len(text))                                       \* width counted in characters
    /\ CountOf(o, LAMBDA c : c \in {43, 45}) = Len(sign)                      \* at most one sign, exactly the given one
    /\ \E k \in 0..(Len(o) - Len(body)) : SubSeq(o, k + 1, k + Len(body)) = body    \* body contiguous
    /\ (~zero => \E k \in 0..(Len(o) - Len(text)) :
            /\ SubSeq(o, k + 1, k + Len(text)) = text                          \* sign directly in front of the body
            /\ \A i \in (1..k) \cup ((k + Len(text) + 1)..Len(o)) : o[i] = 3)   \* padding is fill only
    /\ (zero => sign = SubSeq(o, 1, Len(sign)))                                \* 0 flag: sign first
    /\ (~zero /\ align = "<" /\ Len(o) > 0 => o[1] # 3)
    /\ (~zero /\ align \in {">", "-"} /\ Len(o) > 0 => o[Len(o)] # 3)

---- \* ---------------------------------------------------------------- SI table
SIOneToOne ==
    /\ \A i, j \in DOMAIN SITable : i # j =>
          /\ SITable[i].id # SITable[j].id /\ SITable[i].ncp # SITable[j].ncp
          /\ SITable[i].abbr # SITable[j].abbr /\ SITable[i].exp # SITable[j].exp
    /\ \A i \in 1..(Len(SITable) - 1) : SITable[i].exp < SITable[i + 1].exp
    /\ Len(SITable) = 25 /\ SITable[1].exp = -30 /\ SITable[25].exp = 30
    /\ \A i \in DOMAIN SITable : SITable[i].exp % 3 = 0 \/ SITable[i].exp \in {-2, -1, 1, 2}

---- \* ---------------------------------------------------------------- Serde
V == {1, 2, 3}
S == {1, 2, 3, 4}
RoundTripImpliesInjective ==
    \A ser \in [V -> S], de \in [S -> V] :
        (\A v \in V : de[ser[v]] = v) => (\A a, b \in V : ser[a] = ser[b] => a = b)
=============================================================================
