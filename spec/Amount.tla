------------------------------ MODULE Amount ------------------------------
(***************************************************************************)
(* The amount back-ends and the tolerance model ("up to the rounding of    *)
(* the amount type").  be = "f64" | "dec".                                 *)
(*                                                                         *)
(* f64 : relative.  |r - x| <= K*u*B + 2^-1073 with u = 2^-53, K = 16 and  *)
(*       B the sum of the absolute values of the exact terms that are      *)
(*       added (|x| for pure products / quotients).                        *)
(* dec : absolute.  Every natural intermediate may be off by d = 10^-18;   *)
(*       |r - x| <= Kd*d*(1 + sum of first-order sensitivities), Kd = 4.   *)
(* Every bound below is the bound of DESIGN.md Appendix A multiplied       *)
(* through by the divisor, so that no division is needed.                  *)
(* regime = "exact": every natural intermediate is exactly representable   *)
(* (dyadic model registries), the tolerance is 0.                          *)
(***************************************************************************)
EXTENDS Exact

KF == 16
KD == 4

\* K*u*B
RelTol(B) == XScale2(XMulInt(XAbs(B), KF), -53)
\* Kd*delta*S
AbsTol(S) == XScale10(XMulInt(XAbs(S), KD), -18)

(* in-range predicates (exact):  zero, or lo <= |n/d| <= hi                *)
InBand(n, d, lo, hi) == XIsZero(n) \/ (XCmpAbs(XMul(lo, d), n) <= 0 /\ XCmpAbs(n, XMul(hi, d)) <= 0)
F64Lo == XPow2(-900)
F64Hi == XPow2(900)
DecLo == XPow10(-15)
DecHi == XPow10(17)
\* decimal order of magnitude of |x| (error at most 1), cheap: no alignment of exponents
ApproxLog10(x) == BnDigits(x.m) + x.q + ((x.p * 30103) \div 100000)
\* f64: zero or roughly 2^-900 <= |n/d| <= 2^900 (10^-270 .. 10^270).  The band only delimits the
\* domain of the accuracy clauses, so an approximate but deterministic test is sufficient here.
InBandF64(n, d) == XIsZero(n) \/ LET e == ApproxLog10(n) - ApproxLog10(d) IN e >= -270 /\ e <= 270
InR(be, n, d) == IF be = "f64" THEN InBandF64(n, d) ELSE InBand(n, d, DecLo, DecHi)
\* same but zero not allowed (divisors)
InRNZ(be, n, d) == ~XIsZero(n) /\ InR(be, n, d)

---------------------------------------------------------------------------
(* Convert (a, s1) -> s2 :  exact r = a*s1/s2.                             *)
(* clause on  |r*s2 - a*s1|                                                *)
ConvWithin(be, regime, a, s1, s2, r) ==
    LET x   == XMul(a, s1)
        lhs == XAbsDiff(XMul(r, s2), x)
    IN  IF regime = "exact" THEN XIsZero(lhs)
        ELSE IF be = "f64"
        THEN XLe(lhs, RelTol(x)) \/ XLe(lhs, XAdd(RelTol(x), XScale2(XAbs(s2), -1073)))
        ELSE \* Kd*d*(1 + |a| + 1/s2), times s2: the ratio s1/s2 (sensitivity |a|), the operand in the
             \* reference unit (1/s2) and the result itself may each be rounded at 10^-18.  Dividing by the
             \* INVERSE ratio s2/s1 is deliberately not among the admitted evaluation orders: it loses up
             \* to log10(s1/s2) digits of conversions into a smaller unit, which are exact otherwise.
             XLe(lhs, AbsTol(XAdd(XAdd(XAbs(s2), XMul(XAbs(a), XAbs(s2))), XOne)))

\* f64, wide band for operands and results of conversions and of + - / (2.5e-304 .. 1e303 roughly: ApproxLog10 is
\* off by less than 2 for a quotient, so everything admitted lies strictly inside the normal range of f64)
WideF64(n, d) == XIsZero(n) \/ LET e == ApproxLog10(n) - ApproxLog10(d) IN e >= -303 /\ e <= 303

(* the natural magnitudes of a conversion are in range.  Binary floating point: the operand and the RESULT - an      *)
(* intermediate such as the operand in reference units need not be representable (the ratio of the two scales is,   *)
(* and "ratio times amount" is the evaluation the accuracy claim is about).  Decimal: the list of C18.              *)
ConvInRange(be, a, s1, s2, smin) ==
    IF be = "f64"
    THEN /\ IsFin(a)
         /\ WideF64(a, XOne)
         /\ WideF64(XMul(a, s1), s2)
         /\ InR(be, s1, s2) /\ InR(be, s2, s1)
    ELSE
    /\ IsFin(a)
    /\ InR(be, a, XOne)                     \* operand
    /\ InR(be, XMul(a, s1), XOne)           \* operand in the reference unit
    /\ InR(be, XMul(a, s1), s2)             \* result
    /\ InR(be, XMul(a, s1), smin)           \* in the smallest unit of the quantity
    /\ InR(be, s1, s2)                      \* ratio of the two scales
    /\ InR(be, s2, s1)
=============================================================================
