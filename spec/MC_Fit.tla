------------------------------- MODULE MC_Fit -------------------------------
(***************************************************************************)
(* C05 / C18: the algorithm of HasRefUnit::_fit (filter the eligible       *)
(* units, take the first, then the LAST of the rest whose scale is above   *)
(* the first's and not above the magnitude) against the declarative        *)
(* definition of "best fitting unit", for EVERY registry shape in a        *)
(* bounded family: up to MaxUnits units in iteration order (non-decreasing *)
(* scale, reference unit first among the units of scale one), scales from  *)
(* a five-value set with repetitions, every SI-prefix pattern, and every   *)
(* magnitude on, between, below and above the scales, zero and negative.   *)
(* Scales are 1..5 with 3 playing the role of "one"; magnitudes are        *)
(* doubled integers (2*s is "exactly on scale s", 2*s+1 just above).       *)
(***************************************************************************)
EXTENDS Integers, Sequences, FiniteSets, TLC
CONSTANT MaxUnits
VARIABLES us, ref, m      \* us: sequence of [s: scale, si: has SI prefix]; ref: index of the reference unit
RefScale == 3
Mags == -1..12

Sorted(s) == \A i \in 1..(Len(s) - 1) : s[i].s <= s[i + 1].s
Shapes(n) == {s \in [1..n -> [s : 1..5, si : BOOLEAN]] : Sorted(s)}
Init == /\ \E n \in 1..MaxUnits : us \in Shapes(n)
        /\ ref \in DOMAIN us
        /\ us[ref].s = RefScale /\ (\A i \in 1..(ref - 1) : us[i].s # RefScale)   \* reference first among scale one
        /\ m \in Mags
Next == UNCHANGED <<us, ref, m>>

\* property level
Eligible == IF us[ref].si THEN {i \in DOMAIN us : us[i].si} ELSE DOMAIN us
Below    == {i \in Eligible : 2 * us[i].s <= m}
BestFit  == IF Below # {} THEN {i \in Below : \A j \in Below : us[j].s <= us[i].s}
            ELSE {i \in Eligible : \A j \in Eligible : us[i].s <= us[j].s}

\* algorithm level (transcription of _fit)
FitAlgo ==
    LET first == CHOOSE i \in Eligible : \A j \in Eligible : i <= j
        rest  == {i \in Eligible : i > first /\ us[i].s > us[first].s /\ 2 * us[i].s <= m}
    IN  IF rest = {} THEN first ELSE CHOOSE i \in rest : \A j \in rest : j <= i

EligibleNonEmpty == Eligible # {}                      \* the unwrap() in _fit cannot fail
AlgoIsBestFit    == us[FitAlgo].s \in {us[i].s : i \in BestFit} /\ FitAlgo \in Eligible
=============================================================================
