-------------------------------- MODULE Text --------------------------------
(***************************************************************************)
(* Text output (C15), serialisation (C17) and the SI prefix table (C16).   *)
(* TLC cannot index strings, so every text is carried as its sequence of   *)
(* Unicode code points and the specification works on Seq(Nat).            *)
(***************************************************************************)
EXTENDS Quantities

SP    == 32
PLUS  == 43
MINUS == 45
DOT   == 46
IsDigit(c) == c >= 48 /\ c <= 57

RECURSIVE CountLead(_, _, _)
CountLead(s, c, i) == IF i <= Len(s) /\ s[i] = c THEN CountLead(s, c, i + 1) ELSE i - 1
RECURSIVE CountTrail(_, _, _)
CountTrail(s, c, i) == IF i >= 1 /\ s[i] = c THEN CountTrail(s, c, i - 1) ELSE Len(s) - i

\* index just after the run of digits starting at i
RECURSIVE DigitsEnd(_, _)
DigitsEnd(s, i) == IF i <= Len(s) /\ IsDigit(s[i]) THEN DigitsEnd(s, i + 1) ELSE i

(* Parse  [sign] digits [ '.' digits ]  at the start of s.                 *)
(* Result: ok, sign (0 / PLUS / MINUS), int and frac digit values, next    *)
ParseNumber(s) ==
    LET sg  == IF Len(s) >= 1 /\ s[1] \in {PLUS, MINUS} THEN s[1] ELSE 0
        i0  == IF sg = 0 THEN 1 ELSE 2
        i1  == DigitsEnd(s, i0)
        hasdot == i1 <= Len(s) /\ s[i1] = DOT
        i2  == IF hasdot THEN DigitsEnd(s, i1 + 1) ELSE i1
        ints == [k \in 1..(i1 - i0) |-> s[i0 + k - 1] - 48]
        frac == IF hasdot THEN [k \in 1..(i2 - i1 - 1) |-> s[i1 + k] - 48] ELSE <<>>
    IN  [ok |-> i1 > i0 /\ (hasdot => i2 > i1 + 1), sign |-> sg, ints |-> ints, frac |-> frac,
         hasdot |-> hasdot, next |-> i2]

\* exact value of the digits (unsigned)
NumberValue(pn) == X(FALSE, BnFromDigits(pn.ints \o pn.frac), 0, -Len(pn.frac))

Max(a, b) == IF a > b THEN a ELSE b

---------------------------------------------------------------------------
(* C15  Display of a quantity value                                        *)
FormatClauses(e) ==
    LET T    == e.T
        kn   == KT(T) /\ KU(T, e.v.u)
        ok   == Ok(e.out)
        a    == e.v.a
        sym  == e.sym.cp
        o    == e.out.ok.cp
        sp   == e.spec
        fill == IF sp.fill = -1 THEN SP ELSE sp.fill
        W    == Max(0, sp.width)
        unitless == sym = <<>>
        fin  == IsFin(a)
        \* strip the padding
        pl   == CountLead(o, fill, 1)
        \* trailing padding: the fill characters after the symbol.  The symbol itself may end with the fill
        \* character, so among the trailing fill characters those that complete " " ++ symbol belong to the body
        trail == IF pl = Len(o) THEN 0 ELSE CountTrail(o, fill, Len(o))
        tailOK(k) == LET n == Len(sym) + 1 IN
                     Len(o) - k >= n /\ SubSeq(o, Len(o) - k - n + 1, Len(o) - k) = <<SP>> \o sym
        prC  == {k \in 0..trail : tailOK(k)}
        pr   == IF prC = {} THEN trail ELSE CHOOSE k \in prC : \A j \in prC : j <= k
        core == SubSeq(o, pl + 1, Len(o) - pr)
        pn   == ParseNumber(core)
        rest == SubSeq(core, pn.next, Len(core))
        wellformed == pn.ok /\ rest = <<SP>> \o sym
        negz == fin /\ XIsZero(a) /\ a.neg
        expsign == IF XSign(a) < 0 THEN MINUS ELSE IF sp.plus THEN PLUS ELSE 0
        val  == NumberValue(pn)
        absA == XAbs(a)
        pad  == Len(o) - Len(core)
        claim == IF BE = "f64" THEN TRUE ELSE fin
        symUnique == Cardinality({i \in DOMAIN OUnits(T) : OUnits(T)[i].sym.cp = sym}) = 1
    IN << Cl("C15.known", TRUE, kn),
          Cl("C18.total.format", kn /\ claim /\ OKind(T) = "ref", ok /\ Ok(e.ref)),
          Cl("C15.defined", kn /\ fin, ok),                       \* displaying a finite value yields a text
          Cl("C15.unitless", kn /\ ok /\ unitless /\ Ok(e.ref), o = e.ref.ok.cp),
          Cl("C15.layout", kn /\ ok /\ ~unitless /\ fin, wellformed),
          Cl("C15.sign", kn /\ ok /\ ~unitless /\ fin /\ wellformed /\ ~negz, pn.sign = expsign),
          Cl("C15.width", kn /\ ok /\ ~unitless /\ fin /\ wellformed /\ ~sp.zero, Len(o) = Max(W, Len(core))),
          Cl("C15.zero_flag", kn /\ ok /\ ~unitless /\ fin /\ wellformed /\ sp.zero,
                 \* sign first, then zeros up to the width: no fill characters, and any surplus
                 \* leading zero of the integer part is there only to reach the width
                 LET z == Min2(CountLead(pn.ints, 0, 1), Len(pn.ints) - 1) IN
                 pl = 0 /\ pr = 0 /\ Len(o) = Max(W, Len(o) - z)),
          Cl("C15.align", kn /\ ok /\ ~unitless /\ fin /\ wellformed /\ pad > 0 /\ ~sp.zero,
                 CASE sp.align = "<" -> pl = 0
                   [] sp.align = ">" -> pr = 0
                   [] sp.align = "^" -> pl = pad \div 2
                   [] OTHER -> pl = 0 \/ pr = 0),
          Cl("C15.symbol_resolves", kn /\ ok /\ ~unitless /\ symUnique,
                 /\ IdOrDash(T, FirstIdx(T, LAMBDA u : u.sym.cp = sym)) = e.v.u
                 /\ (Has(e, "resolved") => Ok(e.resolved) /\ e.resolved.ok.unit = e.v.u /\ e.resolved.ok.qty = e.v.u)),
          Cl("C15.parse_back", kn /\ ok /\ ~unitless /\ fin /\ wellformed /\ sp.prec = -1,
                 IF BE = "dec" THEN XEq(val, absA)
                 ELSE \* the (signed) text lies in the rounding interval of the stored double
                      LET tv == IF pn.sign = MINUS THEN XNeg(val) ELSE val IN
                      IF ~IsFin(e.lo) \/ ~IsFin(e.hi) THEN TRUE
                      ELSE /\ XLe(XAdd(e.lo, a), XMulInt(tv, 2))
                           /\ XLe(XMulInt(tv, 2), XAdd(a, e.hi))),
          Cl("C15.prec_digits", kn /\ ok /\ ~unitless /\ fin /\ wellformed /\ sp.prec >= 0,
                 Len(pn.frac) = sp.prec /\ (pn.hasdot = (sp.prec > 0))),
          Cl("C15.prec_rounded", kn /\ ok /\ ~unitless /\ fin /\ wellformed /\ sp.prec >= 0 /\ Len(pn.frac) = sp.prec,
                 \* |text - |a|| <= 10^-p / 2
                 XLe(XMulInt(XAbsDiff(val, absA), 2), XPow10(-sp.prec))) >>

FormatUnitClauses(e) ==
    LET kn == KT(e.T) /\ KU(e.T, e.u) IN
    << Cl("C15.known", TRUE, kn),
       Cl("C15.unit_display", kn, Ok(e.out) /\ Ok(e.ref) /\ e.out.ok.cp = e.ref.ok.cp) >>

---------------------------------------------------------------------------
(* C15  Display of a rate:  term / per , per-multiple of one omitted       *)
RateFmtExpected(e) ==
    LET term == IF e.tsym.cp = <<>> THEN e.ta_txt.cp ELSE e.ta_txt.cp \o <<SP>> \o e.tsym.cp
        per  == IF e.psym.cp = <<>> THEN e.pm_txt.cp
                ELSE IF IsFin(e.rate.pm) /\ XEq(e.rate.pm, XOne) THEN e.psym.cp
                ELSE e.pm_txt.cp \o <<SP>> \o e.psym.cp
    IN  term \o <<SP, 47, SP>> \o per

---------------------------------------------------------------------------
(* C17  serialisation                                                      *)
FieldOf(obj, key) ==
    IF \E i \in DOMAIN obj.keys : obj.keys[i] = key
    THEN obj.vals[CHOOSE i \in DOMAIN obj.keys : obj.keys[i] = key]
    ELSE [t |-> "missing"]

\* value denoted by a decimal string (code points) of the form [-]digits[.digits]
DecStringValue(cp) ==
    LET pn == ParseNumber(cp) IN
    IF pn.ok /\ pn.next = Len(cp) + 1
    THEN [NumberValue(pn) EXCEPT !.neg = (pn.sign = MINUS)]
    ELSE [k |-> "nan"]

SerdeClauses(e) ==
    LET T   == e.T
        kn  == KT(T) /\ KU(T, e.v.u)
        a   == e.v.a
        tok == Ok(e.tree) /\ e.tree.ok.t = "obj"
        am  == FieldOf(e.tree.ok, "amount")
        un  == FieldOf(e.tree.ok, "unit")
        single == OKind(T) = "single"
    IN << Cl("C17.known", TRUE, kn),
          Cl("C17.serialises", kn /\ IsFin(a), tok /\ Ok(e.text) /\ Ok(e.unit_tree)),
          Cl("C17.unit_variant", kn /\ Ok(e.unit_tree),
                 e.unit_tree.ok.t = "str" /\ e.unit_tree.ok.s.s = e.v.u),
          Cl("C17.tree_unit", kn /\ tok /\ ~single, un.t = "str" /\ un.s.s = e.v.u),
          Cl("C17.tree_amount", kn /\ tok /\ IsFin(a),
                 IF BE = "f64" THEN am.t = "num" /\ SameAmount(am.x, a)
                 ELSE am.t = "str" /\ LET v == DecStringValue(am.s.cp) IN IsFin(v) /\ SameAmount(v, a)),
          Cl("C17.roundtrip_tree", kn /\ tok /\ IsFin(a), Ok(e.back_tree) /\ SameQty(e.back_tree.ok, e.v)),
          Cl("C17.roundtrip_text", kn /\ Ok(e.text) /\ IsFin(a), Ok(e.back_text) /\ SameQty(e.back_text.ok, e.v)),
          Cl("C17.unit_roundtrip", kn /\ Ok(e.unit_tree), Ok(e.unit_back) /\ e.unit_back.ok = e.v.u) >>

\* every DECLARED variant name is accepted by the unit type's deserialiser and denotes that unit
\* ("units serialise as their variant names": the names the declaration fixes, not whatever the enum happens to use)
SerdeNameClauses(e) ==
    << Cl("C17.known", TRUE, KT(e.T)),
       Cl("C17.declared_name_accepted", KT(e.T),
              \A i \in DOMAIN e.accepted : Ok(e.accepted[i].out) /\ e.accepted[i].out.ok = e.accepted[i].name) >>

---------------------------------------------------------------------------
(* C16  SI prefixes                                                        *)
SIByExp(x)  == {i \in DOMAIN SITable : SITable[i].exp = x}
SIByAbbr(c) == {i \in DOMAIN SITable : SITable[i].abbr = c}
\* code point of a letter with the first letter case-folded to lower case
LowerFirst(cp) == IF cp # <<>> /\ cp[1] >= 65 /\ cp[1] <= 90 THEN <<cp[1] + 32>> \o Tail(cp) ELSE cp

SIClauses(e) ==
    LET k == e.kind IN
    << Cl("C16.known", TRUE, k \in {"iter", "entry", "from_exp", "from_abbr"}),
       Cl("C16.iter", k = "iter", e.ids = [i \in DOMAIN SITable |-> SITable[i].id]),
       Cl("C16.entry", k = "entry",
              /\ SIKnown(e.id)
              /\ LET r == SITable[SIIdx(e.id)] IN
                 /\ LowerFirst(e.name.cp) = r.ncp
                 /\ e.abbr.cp = r.abbr
                 /\ e.exp = r.exp),
       Cl("C16.from_exp", k = "from_exp",
              /\ Ok(e.out)
              /\ LET S == SIByExp(e.e) IN
                 IF S = {} THEN e.out.ok = "-" ELSE e.out.ok = SITable[CHOOSE i \in S : TRUE].id),
       Cl("C16.from_abbr", k = "from_abbr",
              /\ Ok(e.out)
              /\ LET S == SIByAbbr(e.key.cp) IN
                 IF S = {} THEN e.out.ok = "-" ELSE e.out.ok = SITable[CHOOSE i \in S : TRUE].id) >>
---------------------------------------------------------------------------
(* Beyond the listed properties: the derive macros VariantsAsConstants and *)
(* EnumIter (iteration in declaration order; one constant per variant,     *)
(* named by the same identifier mapping as unit constants).                *)
DeriveClauses(e) ==
    << Cl("X01.enum_iter_in_declaration_order", TRUE,
              Len(e.iter) = Len(e.variants) /\ \A i \in DOMAIN e.variants : e.iter[i].cp = e.variants[i].cp),
       Cl("X01.variant_constants", TRUE,
              Len(e.consts) = Len(e.variants) /\
              \A i \in DOMAIN e.variants : e.consts[i].id.cp = e.variants[i].cp /\ e.consts[i].c.cp = ConstOf(e.variants[i].cp)) >>
=============================================================================
