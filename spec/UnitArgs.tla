------------------------------ MODULE UnitArgs ------------------------------
(***************************************************************************)
(* The argument parser of #[unit(..)] / #[ref_unit(..)] as an explicit     *)
(* automaton over token kinds ("I" identifier, "S" string literal, "N"     *)
(* int/float literal, "C" comma, "X" anything else), and the documented    *)
(* argument forms.  Shared by Macro.tla (C12 clauses) and MC_Macro.tla.    *)
(***************************************************************************)
EXTENDS Sequences, Naturals

(* automaton:  I , S [, I] [, N] [, S]   - a comma must precede every      *)
(* further argument; after the doc string nothing may follow.              *)
(* stage: 1 after symbol, 2 after prefix, 3 after scale                    *)
RECURSIVE AfterComma(_, _, _, _)
RECURSIVE AfterArg(_, _, _, _)
\* positioned after an argument at index i-1, stage s, accumulated r
AfterArg(t, i, s, r) ==
    IF i > Len(t) THEN [r EXCEPT !.ok = TRUE]
    ELSE IF t[i] = "C" THEN AfterComma(t, i + 1, s, r)
    ELSE [r EXCEPT !.ok = FALSE]
AfterComma(t, i, s, r) ==
    IF i > Len(t) THEN [r EXCEPT !.ok = TRUE]
    ELSE IF t[i] = "I" /\ s = 1 THEN AfterArg(t, i + 1, 2, [r EXCEPT !.pfx = TRUE])
    ELSE IF t[i] = "N" /\ s <= 2 THEN AfterArg(t, i + 1, 3, [r EXCEPT !.scale = TRUE])
    ELSE IF t[i] = "S" THEN (IF i = Len(t) THEN [r EXCEPT !.ok = TRUE, !.doc = TRUE] ELSE [r EXCEPT !.ok = FALSE])
    ELSE [r EXCEPT !.ok = FALSE]

ParseArgs(t) ==
    LET r0 == [ok |-> FALSE, pfx |-> FALSE, scale |-> FALSE, doc |-> FALSE] IN
    IF Len(t) >= 3 /\ t[1] = "I" /\ t[2] = "C" /\ t[3] = "S" THEN AfterArg(t, 4, 1, r0) ELSE r0

\* the documented forms, declaratively
Opt(x) == {<<>>, x}
Documented == {<<"I", "C", "S">> \o p \o n \o d :
                 p \in Opt(<<"C", "I">>), n \in Opt(<<"C", "N">>), d \in Opt(<<"C", "S">>)}
DocumentedOrTrailingComma ==
    Documented \cup {f \o <<"C">> : f \in {g \in Documented : g[Len(g)] # "S" \/ Len(g) = 3}}

=============================================================================
