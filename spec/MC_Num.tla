------------------------------ MODULE MC_Num ------------------------------
(* Cross-check of the BigNat / Exact kernels against TLC's native integers *)
(* on a grid of values that fit 31 bits.  State = (a, b); every pair of    *)
(* the grid is an initial state; the invariant is the homomorphism.        *)
EXTENDS Exact, TLC
Grid == {0, 1, 2, 9, 10, 99, 100, 4095, 4096, 9999, 10000, 10001, 12345, 65536, 99999999, 100000000, 123456789, 46340, 46341, 2147483647}
Small == {0, 1, 2, 3, 7, 9999, 10000, 10001, 46340, 12345}
VARIABLES a, b
Init == a \in Grid /\ b \in Grid
Next == UNCHANGED <<a, b>>
N(x) == BnFromInt(x)
CmpInt(x, y) == IF x < y THEN -1 ELSE IF x > y THEN 1 ELSE 0
Hom ==
    /\ IsBigNat(N(a))
    /\ BnToInt(N(a)) = a
    /\ BnCmp(N(a), N(b)) = CmpInt(a, b)
    /\ (a \div 2 + b \div 2 < 1073741823 => BnAdd(N(a \div 2), N(b \div 2)) = N(a \div 2 + b \div 2))
    /\ (a >= b => BnSub(N(a), N(b)) = N(a - b))
    /\ (a \in Small /\ b \in Small => BnMul(N(a), N(b)) = N(a * b))
    /\ (b < 10000 /\ a < 200000 => BnMulSmall(N(a), b) = N(a * b))
    /\ (a < 100000 => BnMulPow2(N(a), 14) = N(a * 16384))
    /\ (a < 100000 => BnMulPow10(N(a), 4) = N(a * 10000) /\ BnMulPow10(N(a), 3) = N(a * 1000))
    /\ (a < 100000 => BnMulPow5(N(a), 6) = N(a * 15625))
    /\ BnDigits(N(12345)) = 5 /\ BnDigits(N(0)) = 0 /\ BnDigits(N(10000)) = 5 /\ BnDigits(N(9999)) = 4
    /\ BnFromDigits(<<1,2,3,4,5,6,7,8,9>>) = N(123456789)
SignedHom ==
    \A sa \in {-1, 1}, sb \in {-1, 1} :
       LET ia == sa * (a % 100000)  ib == sb * (b % 100000)
           xa == XInt(ia)  xb == XInt(ib) IN
       /\ XCmp(xa, xb) = CmpInt(ia, ib)
       /\ XEq(XAdd(xa, xb), XInt(ia + ib))
       /\ XEq(XSub(xa, xb), XInt(ia - ib))
       /\ (a % 100000 < 40000 /\ b % 100000 < 40000 => XEq(XMul(xa, xb), XInt(ia * ib)))
       /\ XEq(XScale2(xa, 3), XInt(ia * 8))
       /\ XEq(XScale10(XScale2(xa, -2), 2), XInt(ia * 25))
       /\ XCmp(XScale10(xa, -1), xa) = CmpInt(ia, ia * 10)
       /\ SameAmount(XScale10(XScale2(xa, -2), 2), XMulInt(xa, 25))
BigOnes ==
    \* (10^12 + 1)^2 = 10^24 + 2*10^12 + 1
    LET t == <<1, 0, 0, 1>> IN
    /\ BnMul(t, t) = <<1, 0, 0, 2, 0, 0, 1>>
    /\ BnSub(BnMul(t, t), <<1>>) = <<0, 0, 0, 2, 0, 0, 1>>
    /\ BnSub(<<0, 0, 0, 1>>, <<1>>) = <<9999, 9999, 9999>>
    /\ BnMulPow2(<<1>>, 64) = <<1616, 955, 737, 6744, 1844>>
    /\ BnCmp(BnMulPow2(<<1>>, 100), BnMulPow10(<<1>>, 30)) = 1
    /\ BnCmp(BnMulPow2(<<1>>, 99), BnMulPow10(<<1>>, 30)) = -1
=============================================================================
