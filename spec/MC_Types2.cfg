CONSTANT MaxDefs = 4
SPECIFICATION Spec
INVARIANT DimSound
INVARIANT Related
INVARIANT Functional
INVARIANT NumberOverQuantity
CHECK_DEADLOCK FALSE
