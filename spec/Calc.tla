-------------------------------- MODULE Calc --------------------------------
(***************************************************************************)
(* The calculator machine, ALGORITHM level.                                *)
(*                                                                         *)
(* State: two registers holding quantity values over the declared (model)  *)
(* registry, the event of the last operation and the number of operations  *)
(* applied.  One action per public operation of the library; each action   *)
(* is a transcription of what the implementation does (equiv_amount with   *)
(* its same-unit shortcut, comparison in the unit with the smaller scale,  *)
(* unit_from_scale = first match, _fit = filter / first / last ...), over  *)
(* exact dyadic numbers, so every intermediate is exact.                   *)
(*                                                                         *)
(* Every action records an event of exactly the shape the harness records  *)
(* from the real code.  The PROPERTY-level clauses of Judge.tla are the    *)
(* invariant: TLC checks that the algorithms satisfy the properties on     *)
(* every reachable operation sequence of the bounded model, and the very   *)
(* same events are then replayed on macro-generated types (spec -> impl),  *)
(* whose recorded trace goes through the same clauses (impl -> spec).      *)
(***************************************************************************)
EXTENDS Judge

CONSTANTS MaxDepth,      \* operations per behaviour
          AmountInts,    \* initial amounts n/2 for n in this set of integers
          Scalars        \* scalar factors n/2
VARIABLES s1, s2, last, prev, depth      \* prev: the event before last (history, for the multi-step identities)
vars == <<s1, s2, last, prev, depth>>

---------------------------------------------------------------------------
\* exact dyadic helpers
RECURSIVE StripTwos(_, _)
StripTwos(n, p) == IF n # 0 /\ n % 2 = 0 THEN StripTwos(n \div 2, p + 1) ELSE <<n, p>>
\* canonical form (odd mantissa) of a number whose mantissa fits an integer; keeps states canonical
\* m*2^p*10^q  ->  m'*2^p' with q = 0 (decimal scale literals such as 0.25 = 25*10^-2 are dyadic values)
ToBinary(x) == IF x.q = 0 THEN x
               ELSE IF x.q > 0 THEN X(x.neg, BnMulPow5(x.m, x.q), x.p + x.q, 0)
               ELSE X(x.neg, BnFromInt(BnToInt(x.m) \div (5 ^ (-x.q))), x.p + x.q, 0)   \* exact for dyadic values
Norm(x) == IF x.m = <<>> THEN XZero
           ELSE LET b == ToBinary(x) IN
                IF ~BnFitsInt(b.m) THEN b
                ELSE LET r == StripTwos(BnToInt(b.m), b.p) IN X(b.neg, BnFromInt(r[1]), r[2], 0)
Half(n) == Norm(X(n < 0, BnFromInt(IF n < 0 THEN -n ELSE n), -1, 0))
IsPow2(x) == Norm(x).m = <<1>>
Lg(x) == Norm(x).p                                   \* log2 of a power of two
DivPow2(a, b) == Norm(X(a.neg # b.neg, a.m, a.p - Lg(XAbs(b)), a.q))    \* a / b for |b| a power of two

ModelTypes == DOMAIN Obs.types
Units(T)  == {OUnits(T)[i].id : i \in DOMAIN OUnits(T)}
Sc(T, u)  == OScale(T, u)
HasRef(T) == OKind(T) = "ref"
Q(a, u)   == [a |-> a, u |-> u]
OkQ(a, u) == [ok |-> Q(a, u)]
OkA(a)    == [ok |-> a]

\* scale(u) / scale(v): dyadic, exact
RatioAlgo(T, u, v) == XPow2(Lg(Sc(T, u)) - Lg(Sc(T, v)))
\* HasRefUnit::equiv_amount
EquivAlgo(T, v, u) == IF v.u = u THEN v.a ELSE Norm(XMul(RatioAlgo(T, v.u, u), v.a))

PcOf(c) == IF c < 0 THEN "Less" ELSE IF c = 0 THEN "Equal" ELSE "Greater"
Answers(eq, pc) == [eq |-> eq, ne |-> ~eq, lt |-> pc = "Less", le |-> pc \in {"Less", "Equal"},
                    gt |-> pc = "Greater", ge |-> pc \in {"Greater", "Equal"}, pc |-> pc]
\* HasRefUnit::eq / partial_cmp (compare in the unit with the smaller scale) and Quantity::eq / partial_cmp
CmpAlgo(T, x, y) ==
    IF HasRef(T)
    THEN LET big == XGe(Sc(T, x.u), Sc(T, y.u))
             l == IF big THEN EquivAlgo(T, x, y.u) ELSE x.a
             r == IF big THEN y.a ELSE EquivAlgo(T, y, x.u)
             pc == IF x.u = y.u THEN PcOf(XCmp(x.a, y.a)) ELSE PcOf(XCmp(l, r))
         IN  Answers(XEq(l, r), pc)
    ELSE Answers(x.u = y.u /\ XEq(x.a, y.a), IF x.u = y.u THEN PcOf(XCmp(x.a, y.a)) ELSE "None")

\* LinearScaledUnit::from_scale / HasRefUnit::unit_from_scale: first match in iteration order
UnitFromScaleAlgo(T, k) == FirstIdx(T, LAMBDA u : XEq(u.scale, k))

\* HasRefUnit::_fit
FitAlgo(T, m) ==
    LET us == OUnits(T)
        ri == OIdxOf(T, ORefUnit(T))
        takeAll == us[ri].pfx = "-"
        elig == {i \in DOMAIN us : takeAll \/ us[i].pfx # "-"}
        first == CHOOSE i \in elig : \A j \in elig : i <= j
        cands == {i \in elig : i # first /\ XGt(us[i].scale, us[first].scale) /\ XLe(us[i].scale, m)}
        pick == IF cands = {} THEN first ELSE CHOOSE i \in cands : \A j \in cands : j <= i
    IN  Q(DivPow2(m, us[pick].scale), us[pick].id)

---------------------------------------------------------------------------
InitVals == {[T |-> T, u |-> u, a |-> Half(n)] : T \in ModelTypes, u \in UNION {Units(t) : t \in ModelTypes}, n \in AmountInts}
Vals0 == {v \in InitVals : v.u \in Units(v.T)}

Init == s1 \in Vals0 /\ s2 \in Vals0 /\ last = [ev |-> "Header"] /\ prev = [ev |-> "Header"] /\ depth = 0

Step(ns1, ev) == s1' = ns1 /\ s2' = s2 /\ last' = ev /\ prev' = last /\ depth' = depth + 1

DoNew == \E via \in {"new", "axu", "uxa"} :
    Step(s1, [ev |-> "New", T |-> s1.T, via |-> via, a |-> s1.a, u |-> s1.u, out |-> OkQ(s1.a, s1.u)])

DoConvert == HasRef(s1.T) /\ \E u \in Units(s1.T) :
    LET r == EquivAlgo(s1.T, s1, u) IN
    Step([s1 EXCEPT !.a = r, !.u = u],
         [ev |-> "Convert", T |-> s1.T, v |-> Q(s1.a, s1.u), to |-> u, out |-> OkQ(r, u), eqv |-> OkA(r)])

DoCmp == s1.T = s2.T /\ OKind(s1.T) # "single" /\
    Step(s1, [ev |-> "Cmp", T |-> s1.T, x |-> Q(s1.a, s1.u), y |-> Q(s2.a, s2.u),
              ab |-> [ok |-> CmpAlgo(s1.T, s1, s2)], ba |-> [ok |-> CmpAlgo(s1.T, s2, s1)],
              ref |-> Answers(XEq(s1.a, s2.a), PcOf(XCmp(s1.a, s2.a))),
              refba |-> Answers(XEq(s2.a, s1.a), PcOf(XCmp(s2.a, s1.a)))])

DoArith == s1.T = s2.T /\ \E op \in {"add", "sub", "div"} :
    LET T == s1.T
        mixedNoRef == ~HasRef(T) /\ s1.u # s2.u
        b == IF HasRef(T) THEN EquivAlgo(T, s2, s1.u) ELSE s2.a
        r == IF op = "add" THEN Norm(XAdd(s1.a, b)) ELSE IF op = "sub" THEN Norm(XSub(s1.a, b)) ELSE DivPow2(s1.a, b)
        plain == IF op = "add" THEN Norm(XAdd(s1.a, s2.a)) ELSE IF op = "sub" THEN Norm(XSub(s1.a, s2.a)) ELSE DivPow2(s1.a, s2.a)
        base == [ev |-> "Arith", T |-> T, op |-> op, x |-> Q(s1.a, s1.u), y |-> Q(s2.a, s2.u)]
    IN  /\ (op = "div" => IsPow2(XAbs(s2.a)) /\ (mixedNoRef \/ IsPow2(XAbs(b))))   \* exact quotients only
        /\ IF mixedNoRef
           THEN Step(s1, base @@ [out |-> [panic |-> "different units"], ref |-> OkA(plain)])
           ELSE Step(IF op = "div" THEN s1 ELSE [s1 EXCEPT !.a = r],
                     base @@ [out |-> (IF op = "div" THEN [ok |-> [a |-> r]] ELSE OkQ(r, s1.u)), ref |-> OkA(plain)])

DoScalar == \E op \in {"kxq", "qxk", "qdk"}, n \in Scalars :
    LET k == Half(n)
        r == IF op = "qdk" THEN DivPow2(s1.a, k) ELSE Norm(XMul(s1.a, k))
    IN  /\ (op = "qdk" => IsPow2(XAbs(k)))
        /\ Step([s1 EXCEPT !.a = r],
                [ev |-> "Scalar", T |-> s1.T, op |-> op, q |-> Q(s1.a, s1.u), k |-> k, out |-> OkQ(r, s1.u), ref |-> OkA(r)])

\* codegen_impl_qty_mul_qty / codegen_impl_div_qties
DoDerived == \E o \in Ops :
    /\ o.l = s1.T /\ o.r = s2.T
    /\ (o.op = "div" => IsPow2(XAbs(s2.a)))
    /\ LET sx == Sc(o.l, s1.u)
           sy == Sc(o.r, s2.u)
           scale == IF o.op = "mul" THEN Norm(XMul(sx, sy)) ELSE DivPow2(sx, sy)
           ab    == IF o.op = "mul" THEN Norm(XMul(s1.a, s2.a)) ELSE DivPow2(s1.a, s2.a)
           ui    == UnitFromScaleAlgo(o.res, scale)
           res   == IF o.res = "Amount" THEN Q(Norm(XMul(ab, scale)), "One")      \* AmountT::_fit is the identity
                    ELSE IF ui # 0 THEN Q(ab, OUnits(o.res)[ui].id)
                    ELSE FitAlgo(o.res, Norm(XMul(ab, scale)))
           out   == [ok |-> res]
       IN  Step([T |-> o.res, u |-> res.u, a |-> res.a],
                [ev |-> "Derived", op |-> o.op, L |-> o.l, R |-> o.r, Res |-> o.res,
                 x |-> Q(s1.a, s1.u), y |-> Q(s2.a, s2.u), kref |-> OkA(scale), ref |-> OkA(ab),
                 out |-> out, bl |-> out, br |-> out, bb |-> out])

DoFit == HasRef(s1.T) /\ s1.T # "Amount" /\
    LET m == Norm(XMul(s1.a, Sc(s1.T, s1.u)))
        r == FitAlgo(s1.T, m)
    IN  Step([s1 EXCEPT !.a = r.a, !.u = r.u], [ev |-> "Fit", T |-> s1.T, m |-> m, out |-> [ok |-> r]])

DoLookup == HasRef(s1.T) /\ \E k \in {Norm(Sc(s1.T, s1.u)), Norm(XMul(s1.a, Sc(s1.T, s1.u)))} :
    LET i == UnitFromScaleAlgo(s1.T, k)
        id == IF i = 0 THEN "-" ELSE OUnits(s1.T)[i].id
    IN  Step(s1, [ev |-> "Lookup", T |-> s1.T, by |-> "scale", key |-> k, out |-> [ok |-> [unit |-> id, qty |-> id]]])

\* Rate<TQ, PQ>: rate * q and q / rate (src/rate.rs, codegen_impl_std_traits)
RatePairs == {<<"Len", "Dur">>, <<"Dur", "Len">>}
DoRate == <<s1.T, s2.T>> \in RatePairs /\ IsPow2(XAbs(s2.a)) /\ IsPow2(XAbs(s1.a)) /\
    \E kind \in {"rxq", "qxr", "qdr"} :
      LET TQ == s1.T  PQ == s2.T
          rate == [ta |-> s1.a, tu |-> s1.u, pm |-> s2.a, pu |-> s2.u]
          mulk == kind # "qdr"
          OT == IF mulk THEN PQ ELSE TQ
      IN  \E qu \in Units(OT) :
            LET qa == Half(3)                                   \* the operand: 1.5 of unit qu
                \* (q / unit.as_qty()) = qa / equiv_amount(1 unit -> qu) ; then / divisor * factor
                one  == IF mulk THEN rate.pu ELSE rate.tu
                den  == IF mulk THEN rate.pm ELSE rate.ta
                num  == IF mulk THEN rate.ta ELSE rate.pm
                inq  == DivPow2(qa, EquivAlgo(OT, Q(XOne, one), qu))
                r    == Norm(XMul(DivPow2(inq, den), num))
                ru   == IF mulk THEN rate.tu ELSE rate.pu
            IN  Step(s1, [ev |-> "Rate", TQ |-> TQ, PQ |-> PQ, kind |-> kind, rate |-> rate,
                          q |-> Q(qa, qu), out |-> OkQ(r, ru)])

\* ConversionTable::convert over the model's no-reference type: same unit / first matching row / nothing
ModelTables == {
    <<>>,
    <<[from |-> "Ta", to |-> "Tb", f |-> Half(4), o |-> Half(-6)], [from |-> "Ta", to |-> "Tb", f |-> Half(2), o |-> Half(2)],
      [from |-> "Tb", to |-> "Tcc", f |-> Half(1), o |-> Half(0)]>>,
    <<[from |-> "Tcc", to |-> "Ta", f |-> Half(-2), o |-> Half(1)], [from |-> "Ta", to |-> "Ta", f |-> Half(6), o |-> Half(6)]>> }
DoTable == OKind(s1.T) = "noref" /\ \E tbl \in ModelTables, to \in Units(s1.T) :
    LET rows == [i \in DOMAIN tbl |-> tbl[i] @@ [ref |-> OkA(Norm(XAdd(XMul(s1.a, tbl[i].f), tbl[i].o)))]]
        i == FirstRow(rows, s1.u, to)
        out == IF s1.u = to THEN OkQ(s1.a, s1.u)
               ELSE IF i # 0 THEN OkQ(rows[i].ref.ok, to)
               ELSE [ok |-> [none |-> TRUE]]
    IN  Step(s1, [ev |-> "Table", T |-> s1.T, predefined |-> FALSE, rows |-> rows, v |-> Q(s1.a, s1.u), to |-> to, out |-> out])

Swap == s1' = s2 /\ s2' = s1 /\ UNCHANGED <<last, prev, depth>>

Next == depth < MaxDepth /\ (DoNew \/ DoConvert \/ DoCmp \/ DoArith \/ DoScalar \/ DoDerived \/ DoFit \/ DoLookup \/ DoRate \/ DoTable)

Spec == Init /\ [][Next]_vars

---------------------------------------------------------------------------
\* the property-level clauses hold for every event the algorithms can produce
PropertiesHold == last.ev = "Header" \/ AllOk(last)
\* diagnostics: which clause fails
WhichFail == last.ev = "Header" \/ Failing(last) = {} \/ PrintT(<<"FAILING", Failing(last)>>)

\* multi-step identities over the history (prev, last), exact regime:
MagQ(T, q) == IF HasRef(T) THEN XMul(q.a, Sc(T, q.u)) ELSE q.a
\* converting there and back returns the original amount
ConvertRoundTrip ==
    (prev.ev = "Convert" /\ last.ev = "Convert" /\ last.T = prev.T /\ last.v = prev.out.ok /\ last.to = prev.v.u)
        => XEq(last.out.ok.a, prev.v.a)
\* (a + b) - b = a  and  (a - b) + b = a
AddSubInverse ==
    (prev.ev = "Arith" /\ last.ev = "Arith" /\ Ok(prev.out) /\ Ok(last.out) /\ last.T = prev.T
       /\ {prev.op, last.op} = {"add", "sub"} /\ last.x = prev.out.ok /\ last.y = prev.y)
        => XEq(last.out.ok.a, prev.x.a) /\ last.out.ok.u = prev.x.u
\* (x * y) / y and (x / y) * y give back the magnitude of x  (C04 "consequently")
MulDivInverse ==
    (prev.ev = "Derived" /\ last.ev = "Derived" /\ prev.op # last.op /\ last.L = prev.Res /\ last.R = prev.R
       /\ last.Res = prev.L /\ last.x = prev.out.ok /\ last.y = prev.y)
        => XEq(MagQ(last.Res, last.out.ok), MagQ(prev.L, prev.x))
\* magnitude of a value
Mag(v) == IF HasRef(v.T) THEN XMul(v.a, Sc(v.T, v.u)) ELSE v.a
\* emission of the explored events for replay on the implementation (spec -> impl)
Emit == last.ev = "Header" \/ PrintT("EV " \o ToJson(last))
=============================================================================
