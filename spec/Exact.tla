------------------------------- MODULE Exact -------------------------------
(***************************************************************************)
(* Exact signed numbers  (-1)^neg * m * 2^p * 10^q  with m a BigNat.       *)
(* Every finite f64 is m*2^p (q = 0), every fixed-point decimal is         *)
(* m*10^q (p = 0); products, sums, differences and comparisons of such     *)
(* numbers are again of this shape, so that every check of the             *)
(* specification can be written with cross-multiplication and without any  *)
(* big-number division.                                                    *)
(* Amounts additionally carry a kind tag k: "fin", "nan", "inf".           *)
(***************************************************************************)
EXTENDS BigNat

Min2(a, b) == IF a < b THEN a ELSE b
Max2(a, b) == IF a > b THEN a ELSE b

X(neg, m, p, q) == [k |-> "fin", neg |-> neg, m |-> m, p |-> p, q |-> q]
XInt(n)  == IF n < 0 THEN X(TRUE, BnFromInt(-n), 0, 0) ELSE X(FALSE, BnFromInt(n), 0, 0)
XZero    == X(FALSE, <<>>, 0, 0)
XOne     == X(FALSE, <<1>>, 0, 0)
XPow2(e) == X(FALSE, <<1>>, e, 0)
XPow10(e) == X(FALSE, <<1>>, 0, e)

IsFin(x) == x.k = "fin"
IsNaN(x) == x.k = "nan"
IsInf(x) == x.k = "inf"

XIsZero(x) == x.m = <<>>
XNeg(x)    == [x EXCEPT !.neg = ~x.neg]
XAbs(x)    == [x EXCEPT !.neg = FALSE]
\* sign: -1, 0, 1
XSign(x)   == IF x.m = <<>> THEN 0 ELSE IF x.neg THEN -1 ELSE 1

XMul(x, y) == X(x.neg # y.neg, BnMul(x.m, y.m), x.p + y.p, x.q + y.q)
XScale2(x, e)  == [x EXCEPT !.p = x.p + e]
XScale10(x, e) == [x EXCEPT !.q = x.q + e]
XMulInt(x, n)  == XMul(x, XInt(n))

\* mantissa of x re-expressed at exponents (p, q) with p <= x.p and q <= x.q
XMant(x, p, q) == BnMulPow10(BnMulPow2(x.m, x.p - p), x.q - q)

\* compare magnitudes |x| ? |y| : -1, 0, 1
XCmpAbs(x, y) ==
    IF x.m = <<>> THEN (IF y.m = <<>> THEN 0 ELSE -1)
    ELSE IF y.m = <<>> THEN 1
    ELSE LET p == Min2(x.p, y.p)
             q == Min2(x.q, y.q)
         IN  BnCmp(XMant(x, p, q), XMant(y, p, q))

\* numeric comparison (-0 = +0): -1, 0, 1
XCmp(x, y) ==
    LET sx == XSign(x)
        sy == XSign(y)
    IN  IF sx < sy THEN -1
        ELSE IF sx > sy THEN 1
        ELSE IF sx = 0 THEN 0
        ELSE IF sx = 1 THEN XCmpAbs(x, y)
        ELSE XCmpAbs(y, x)

XEq(x, y) == XCmp(x, y) = 0
XLt(x, y) == XCmp(x, y) < 0
XLe(x, y) == XCmp(x, y) <= 0
XGt(x, y) == XCmp(x, y) > 0
XGe(x, y) == XCmp(x, y) >= 0

XAdd(x, y) ==
    IF x.m = <<>> THEN y
    ELSE IF y.m = <<>> THEN x
    ELSE LET p  == Min2(x.p, y.p)
             q  == Min2(x.q, y.q)
             mx == XMant(x, p, q)
             my == XMant(y, p, q)
         IN  IF x.neg = y.neg THEN X(x.neg, BnAdd(mx, my), p, q)
             ELSE LET c == BnCmp(mx, my)
                  IN  IF c = 0 THEN X(FALSE, <<>>, p, q)
                      ELSE IF c > 0 THEN X(x.neg, BnSub(mx, my), p, q)
                      ELSE X(y.neg, BnSub(my, mx), p, q)
XSub(x, y) == XAdd(x, XNeg(y))
XAbsDiff(x, y) == XAbs(XSub(x, y))
XMaxAbs(x, y) == IF XCmpAbs(x, y) >= 0 THEN XAbs(x) ELSE XAbs(y)

\* Bit identity of two logged amounts (all NaNs are one class; -0 # +0).
\* Finite values are compared by value AND sign, independent of the
\* (p, q) normalisation the logger happened to use.
SameAmount(x, y) ==
    IF x.k # y.k THEN FALSE
    ELSE IF x.k = "nan" THEN TRUE
    ELSE IF x.k = "inf" THEN x.neg = y.neg
    ELSE x.neg = y.neg /\ XCmpAbs(x, y) = 0

\* Number of fractional decimal digits needed by a decimal x (p = 0): -q if q < 0
XIsInteger(x) == x.m = <<>> \/ (x.p >= 0 /\ x.q >= 0)
=============================================================================
