---------------------------- MODULE Quantities ----------------------------
(***************************************************************************)
(* The calculator machine of `quantities`, property level: for every       *)
(* public operation the relation between operands and result that the      *)
(* listed properties demand, written over exact numbers.  An event of a    *)
(* trace is one application of an operation; XxxClauses(e) is the sequence *)
(* of clauses [id, ante, ok] that the event has to satisfy.  Clause ids    *)
(* start with the property they belong to.                                 *)
(***************************************************************************)
EXTENDS Amount, Registry, SI, Sequences

\* TRACE = "none": the specification is model-checked on its own (exact regime, no recorded trace)
Rec0   == IF IOEnv.TRACE = "none" THEN <<[ev |-> "Header", be |-> "f64", regime |-> "exact"]>>
          ELSE ndJsonDeserialize(IOEnv.TRACE)
Hdr    == Rec0[1]
BE     == Hdr.be
REGIME == IF Has(Hdr, "regime") THEN Hdr.regime ELSE "rounded"

Cl(id, ante, cond) == [id |-> id, ante |-> ante, ok |-> (~ante) \/ cond]
Ok(o)  == Has(o, "ok")

KT(T)    == OKnownT(T)
KU(T, u) == OKnownU(T, u)
IsRefT(T) == KT(T) /\ OKind(T) = "ref"

\* smallest / all observed scales of a type with reference unit
RECURSIVE MinScaleI(_, _, _)
MinScaleI(us, i, m) == IF i > Len(us) THEN m
                       ELSE MinScaleI(us, i + 1, IF XCmp(us[i].scale, m) < 0 THEN us[i].scale ELSE m)
SMinTab == [T \in {t \in DOMAIN Obs.types : Obs.types[t].kind = "ref"} |->
              MinScaleI(Obs.types[T].units, 1, Obs.types[T].units[1].scale)]
SMin(T) == SMinTab[T]

(* The physical value of a quantity is its amount times the PUBLISHED scale of its unit.  C07 makes the reported *)
(* scale equal to the published one, so on a tree where C07 holds both readings coincide and the clauses over   *)
(* reported scales say everything.  Where a catalogue unit's reported scale DEVIATES from its published one     *)
(* (terminating decimals only: those are numbers of the exact arithmetic used here), the *_published clauses    *)
(* judge conversions, comparisons, sums, ratios, derived results and rates by the published scales.             *)
HasPub(T, u) == /\ T \in DOMAIN Decl.types /\ Decl.types[T].crate # "gen" /\ DKnownU(T, u)
                /\ DUnit(T, u).term /\ DUnit(T, u).pscale.k = "fin"
PScale(T, u) == IF HasPub(T, u) THEN DUnit(T, u).pscale ELSE OScale(T, u)
DevTab == [T \in DOMAIN Obs.types |->
             [i \in DOMAIN Obs.types[T].units |->
                LET u == Obs.types[T].units[i].id
                    s == Obs.types[T].units[i].scale
                IN  /\ HasPub(T, u)
                    /\ LET p == DUnit(T, u).pscale
                       IN  IF BE = "dec" THEN ~XEq(s, p)
                           ELSE ~XLe(XAbsDiff(s, p), XScale2(XAbs(p), -52))]]
Dev(T, u) == OKnownU(T, u) /\ DevTab[T][OIdxOf(T, u)]

SameQty(p, q) == p.u = q.u /\ SameAmount(p.a, q.a)
\* two outcomes are identical
SameOutcome(o1, o2) == IF Ok(o1) THEN Ok(o2) /\ SameQty(o1.ok, o2.ok) ELSE ~Ok(o2)

Seq2Set(s) == {s[i] : i \in DOMAIN s}

---------------------------------------------------------------------------
(* C01  Convert / equiv_amount                                             *)
ConvertClauses(e) ==
    LET T   == e.T
        kn  == IsRefT(T) /\ KU(T, e.v.u) /\ KU(T, e.to)
        a   == e.v.a
        s1  == OScale(T, e.v.u)
        s2  == OScale(T, e.to)
        ok  == Ok(e.out)
        r   == e.out.ok.a
        inr == IsFin(a) /\ ConvInRange(BE, a, s1, s2, SMin(T))
        claim == IF BE = "f64" THEN TRUE ELSE inr
    IN << Cl("C01.known", TRUE, kn),
          Cl("C18.total.convert", kn /\ claim, ok /\ Ok(e.eqv)),
          Cl("C01.unit", kn /\ ok, e.out.ok.u = e.to),
          Cl("C01.same", kn /\ ok /\ e.v.u = e.to, SameAmount(r, a)),
          Cl("C01.equiv", kn /\ ok /\ Ok(e.eqv), SameAmount(e.eqv.ok, r)),
          Cl("C01.mag", kn /\ ok /\ inr /\ e.v.u # e.to,
                        IsFin(r) /\ ConvWithin(BE, REGIME, a, s1, s2, r)),
          Cl("C01.mag_published", kn /\ ok /\ inr /\ e.v.u # e.to /\ (Dev(T, e.v.u) \/ Dev(T, e.to)),
                        IsFin(r) /\ ConvWithin(BE, REGIME, a, PScale(T, e.v.u), PScale(T, e.to), r)) >>

---------------------------------------------------------------------------
(* C02 / C10  comparison                                                   *)
PcRev(p) == CASE p = "Less" -> "Greater" [] p = "Greater" -> "Less" [] OTHER -> p
CmpFields == {"eq", "ne", "lt", "le", "gt", "ge", "pc"}
SameCmp(c1, c2) == \A f \in CmpFields : c1[f] = c2[f]
\* the seven answers for an exact order  o \in {-1, 0, 1}
CmpOf(o) == [eq |-> o = 0, ne |-> o # 0, lt |-> o < 0, le |-> o <= 0, gt |-> o > 0, ge |-> o >= 0,
             pc |-> IF o < 0 THEN "Less" ELSE IF o = 0 THEN "Equal" ELSE "Greater"]
CmpConsistent(c) ==
    /\ c.ne = ~c.eq
    /\ c.lt = (c.pc = "Less")
    /\ c.gt = (c.pc = "Greater")
    /\ c.le = (c.pc \in {"Less", "Equal"})
    /\ c.ge = (c.pc \in {"Greater", "Equal"})
    /\ c.eq = (c.pc = "Equal")
CmpSymmetric(ab, ba) ==
    /\ ab.eq = ba.eq
    /\ ab.ne = ba.ne
    /\ ab.lt = ba.gt
    /\ ab.le = ba.ge
    /\ ab.gt = ba.lt
    /\ ab.ge = ba.le
    /\ ba.pc = PcRev(ab.pc)

(* |Ma - Mb| exceeds the rounding error of one conversion (either          *)
(* direction).  f64: 16u*max(|Ma|,|Mb|).  dec: bound of converting b into  *)
(* a's unit resp. a into b's unit, expressed in magnitude space and        *)
(* multiplied through by the target scale.                                 *)
CmpSeparated(a, sa, b, sb) ==
    LET Ma == XMul(a, sa)
        Mb == XMul(b, sb)
        D  == XAbsDiff(Ma, Mb)
    IN  IF REGIME = "exact" THEN ~XIsZero(D)
        ELSE IF BE = "f64" THEN XGt(D, RelTol(XMaxAbs(Ma, Mb)))
        ELSE LET one(sp, q) ==   \* rounding error of converting q into the unit with scale sp, in magnitude space
                     XGt(D, AbsTol(XAdd(XAdd(sp, XMul(XAbs(q), sp)), XOne)))
             IN  one(sa, b) /\ one(sb, a)

CmpInRange(a, sa, b, sb, smin) ==
    /\ IsFin(a) /\ IsFin(b)
    /\ ConvInRange(BE, a, sa, sb, smin)
    /\ ConvInRange(BE, b, sb, sa, smin)

CmpClauses(e) ==
    LET T   == e.T
        kn  == KT(T) /\ KU(T, e.x.u) /\ KU(T, e.y.u)
        a   == e.x.a
        b   == e.y.a
        same == e.x.u = e.y.u
        ok  == Ok(e.ab) /\ Ok(e.ba)
        ab  == e.ab.ok
        ba  == e.ba.ok
        isref == kn /\ OKind(T) = "ref"
        nonan == ~IsNaN(a) /\ ~IsNaN(b)
        sa  == OScale(T, e.x.u)
        sb  == OScale(T, e.y.u)
        inr == IsFin(a) /\ IsFin(b) /\ (same \/ CmpInRange(a, sa, b, sb, SMin(T)))
        claim == IF BE = "f64" THEN TRUE ELSE inr
    IN << Cl("C02.known", TRUE, kn),
          Cl("C18.total.cmp", isref /\ claim, ok),
          Cl("C02.same", isref /\ ok /\ same, SameCmp(ab, e.ref) /\ SameCmp(ba, e.refba)),
          Cl("C02.order", isref /\ ok /\ ~same /\ inr /\ CmpSeparated(a, sa, b, sb),
                 LET o == XCmp(XMul(a, sa), XMul(b, sb)) IN SameCmp(ab, CmpOf(o)) /\ SameCmp(ba, CmpOf(-o))),
          Cl("C02.order_published", isref /\ ok /\ ~same /\ inr /\ (Dev(T, e.x.u) \/ Dev(T, e.y.u))
                                    /\ CmpSeparated(a, PScale(T, e.x.u), b, PScale(T, e.y.u)),
                 LET o == XCmp(XMul(a, PScale(T, e.x.u)), XMul(b, PScale(T, e.y.u)))
                 IN SameCmp(ab, CmpOf(o)) /\ SameCmp(ba, CmpOf(-o))),
          Cl("C02.sym", isref /\ ok /\ nonan, CmpSymmetric(ab, ba)),
          Cl("C02.consistent", isref /\ ok, CmpConsistent(ab) /\ CmpConsistent(ba)),
          \* quantities without reference unit
          Cl("C10.nopanic.cmp", kn /\ ~isref, ok),
          Cl("C10.eq", kn /\ ~isref /\ ok,
                 /\ ab.eq = (same /\ e.ref.eq) /\ ab.ne = ~ab.eq
                 /\ ba.eq = (same /\ e.refba.eq) /\ ba.ne = ~ba.eq),
          Cl("C10.unordered", kn /\ ~isref /\ ok /\ ~same,
                 \A c \in {ab, ba} : c.pc = "None" /\ ~c.lt /\ ~c.le /\ ~c.gt /\ ~c.ge),
          Cl("C10.same", kn /\ ~isref /\ ok /\ same, SameCmp(ab, e.ref) /\ SameCmp(ba, e.refba)) >>

---------------------------------------------------------------------------
(* C03 / C10  + - / of like quantities                                     *)
ArithInRange(op, a, sa, b, sb, smin) ==
    IF BE = "f64"
    THEN \* operands, the right operand in the left one's unit, and the result (no overflow of the sum; the ratio itself)
         /\ IsFin(a) /\ IsFin(b)
         /\ WideF64(a, XOne) /\ WideF64(b, XOne)
         /\ WideF64(XMul(b, sb), sa)
         /\ InR(BE, sb, sa) /\ InR(BE, sa, sb)
         /\ IF op = "div"
            THEN ~XIsZero(b) /\ WideF64(XMul(a, sa), XMul(b, sb))
            ELSE WideF64(XAdd(XAbs(XMul(a, sa)), XAbs(XMul(b, sb))), sa)
    ELSE
    /\ IsFin(a) /\ IsFin(b)
    /\ InR(BE, a, XOne) /\ InR(BE, b, XOne)
    /\ InR(BE, XMul(a, sa), XOne) /\ InR(BE, XMul(b, sb), XOne)
    /\ InR(BE, XMul(a, sa), smin) /\ InR(BE, XMul(b, sb), smin)
    /\ InR(BE, XMul(b, sb), sa)                 \* b in a's unit
    /\ InR(BE, sb, sa) /\ InR(BE, sa, sb)
    /\ IF op = "div"
       THEN /\ ~XIsZero(b)
            /\ InR(BE, XMul(a, sa), XMul(b, sb))          \* the ratio
       ELSE LET M == IF op = "add" THEN XAdd(XMul(a, sa), XMul(b, sb)) ELSE XSub(XMul(a, sa), XMul(b, sb))
            IN  InR(BE, M, XOne) /\ InR(BE, M, sa) /\ InR(BE, M, smin)

\* add / sub :  result r in unit sa;  exact magnitude  M = a*sa +- b*sb
AddWithin(op, a, sa, b, sb, r) ==
    LET Ma  == XMul(a, sa)
        Mb  == XMul(b, sb)
        M   == IF op = "add" THEN XAdd(Ma, Mb) ELSE XSub(Ma, Mb)
        lhs == XAbsDiff(XMul(r, sa), M)
    IN  IF REGIME = "exact" THEN XIsZero(lhs)
        ELSE IF BE = "f64" THEN XLe(lhs, RelTol(XAdd(XAbs(Ma), XAbs(Mb))))
                                \/ XLe(lhs, XAdd(RelTol(XAdd(XAbs(Ma), XAbs(Mb))), XScale2(XAbs(sa), -1073)))
        ELSE \* lhs <= Kd*d*(sa + |b|sa + 1)   (conversion of b into a's unit; the addition itself is exact)
             XLe(lhs, AbsTol(XAdd(XAdd(sa, XMul(XAbs(b), sa)), XOne)))

\* ratio q = (a*sa)/(b*sb)
RatioWithin(a, sa, b, sb, q) ==
    LET Ma  == XMul(a, sa)
        Mb  == XMul(b, sb)
        lhs == XAbsDiff(XMul(q, Mb), Ma)
    IN  IF REGIME = "exact" THEN XIsZero(lhs)
        ELSE IF BE = "f64" THEN XLe(lhs, RelTol(Ma)) \/ XLe(lhs, XAdd(RelTol(Ma), XScale2(XAbs(Mb), -1073)))
        ELSE \* lhs <= Kd*d*( |b|sb + |q|(sa + |b|sa + 1) + 1 + |q| )
             LET aq == XAbs(q)  ab == XAbs(b) IN
             XLe(lhs, AbsTol(XAdd(XAdd(XMul(ab, sb), XMul(aq, XAdd(XAdd(sa, XMul(ab, sa)), XOne))),
                                  XAdd(XOne, aq))))

ArithClauses(e) ==
    LET T   == e.T
        kn  == KT(T) /\ KU(T, e.x.u) /\ KU(T, e.y.u)
        op  == e.op
        a   == e.x.a
        b   == e.y.a
        same == e.x.u = e.y.u
        ok  == Ok(e.out)
        isref == kn /\ OKind(T) = "ref"
        sa  == OScale(T, e.x.u)
        sb  == OScale(T, e.y.u)
        inr == IsFin(a) /\ IsFin(b) /\ ArithInRange(op, a, sa, b, sb, SMin(T))
        claim == IF BE = "f64" THEN TRUE ELSE inr
        r   == e.out.ok.a
    IN << Cl("C03.known", TRUE, kn /\ op \in {"add", "sub", "div"}),
          Cl("C18.total.arith", isref /\ claim, ok),
          Cl("C03.unit", isref /\ ok /\ op # "div", e.out.ok.u = e.x.u),
          Cl("C03.same", isref /\ ok /\ same /\ Ok(e.ref), SameAmount(r, e.ref.ok)),
          Cl("C03.mag", isref /\ ok /\ inr /\ op # "div", IsFin(r) /\ AddWithin(op, a, sa, b, sb, r)),
          Cl("C03.ratio", isref /\ ok /\ inr /\ op = "div", IsFin(r) /\ RatioWithin(a, sa, b, sb, r)),
          Cl("C03.mag_published", isref /\ ok /\ inr /\ op # "div" /\ ~same /\ (Dev(T, e.x.u) \/ Dev(T, e.y.u)),
                 IsFin(r) /\ AddWithin(op, a, PScale(T, e.x.u), b, PScale(T, e.y.u), r)),
          Cl("C03.ratio_published", isref /\ ok /\ inr /\ op = "div" /\ ~same /\ (Dev(T, e.x.u) \/ Dev(T, e.y.u)),
                 IsFin(r) /\ RatioWithin(a, PScale(T, e.x.u), b, PScale(T, e.y.u), r)),
          \* quantities without reference unit (several units, or a single one)
          Cl("C10.panic", kn /\ ~isref /\ ~same, ~ok),
          Cl("C10.same", kn /\ ~isref /\ same,
                 IF Ok(e.ref) THEN ok /\ SameAmount(r, e.ref.ok) /\ (op # "div" => e.out.ok.u = e.x.u)
                 ELSE ~ok) >>

---------------------------------------------------------------------------
(* C08  construction and scaling by numbers                                *)
NewClauses(e) ==
    LET kn == KT(e.T) /\ KU(e.T, e.u) IN
    << Cl("C08.known", TRUE, kn /\ e.via \in {"new", "axu", "uxa"}),
       Cl("C08.nopanic.new", kn, Ok(e.out)),
       Cl("C08.new", kn /\ Ok(e.out), SameAmount(e.out.ok.a, e.a) /\ e.out.ok.u = e.u) >>

ScalarClauses(e) ==
    LET kn == KT(e.T) /\ KU(e.T, e.q.u) IN
    << Cl("C08.known", TRUE, kn /\ e.op \in {"kxq", "qxk", "qdk"}),
       Cl("C08.scalar_total", kn, Ok(e.out) = Ok(e.ref)),
       Cl("C18.total.scalar", kn /\ BE = "f64", Ok(e.out)),
       Cl("C08.scalar", kn /\ Ok(e.out) /\ Ok(e.ref),
              SameAmount(e.out.ok.a, e.ref.ok) /\ e.out.ok.u = e.q.u) >>

---------------------------------------------------------------------------
(* C05  natural / best-fitting unit;  C04 magnitude of derived results     *)
Eligible(T) ==   \* indices into OUnits(T)
    LET us == OUnits(T)
        ri == OIdxOf(T, ORefUnit(T))
    IN  IF ri # 0 /\ us[ri].pfx # "-" THEN {i \in DOMAIN us : us[i].pfx # "-"} ELSE DOMAIN us

\* m = n/d (d > 0) against a scale s :   s <= m
LeFrac(s, n, d) == XLe(XMul(s, d), n)

(* Set of unit indices admissible as "best fit" for some x in [lo, hi]     *)
(* (lo, hi fractions over the common positive denominator d).              *)
BestFitBand(T, lo, hi, d) ==
    LET us == OUnits(T)
        E  == Eligible(T)
        below == {i \in E : LeFrac(us[i].scale, lo, d)}
        minE  == {i \in E : \A j \in E : XLe(us[i].scale, us[j].scale)}
        floorLo == IF below = {} THEN minE
                   ELSE {i \in below : \A j \in below : XLe(us[j].scale, us[i].scale)}
        anyFloor == CHOOSE i \in floorLo : TRUE
    IN  floorLo \cup {i \in E : LeFrac(us[i].scale, hi, d) /\ XLe(us[anyFloor].scale, us[i].scale)}

Natural(T, k) == {i \in DOMAIN OUnits(T) : IsFin(k) /\ XEq(OUnits(T)[i].scale, k)}

DerivedInRange(op, a, sa, b, sb, sminL, sminR, sminRes) ==
    /\ IsFin(a) /\ IsFin(b)
    /\ InR(BE, a, XOne) /\ InR(BE, b, XOne)
    /\ InR(BE, XMul(a, sa), XOne) /\ InR(BE, XMul(b, sb), XOne)
    /\ InR(BE, XMul(a, sa), sminL) /\ InR(BE, XMul(b, sb), sminR)
    /\ IF op = "mul"
       THEN LET M == XMul(XMul(a, sa), XMul(b, sb)) IN
            /\ InR(BE, XMul(sa, sb), XOne)
            /\ InR(BE, XMul(a, b), XOne)
            /\ InR(BE, M, XOne) /\ InR(BE, M, sminRes)
       ELSE /\ ~XIsZero(b)
            /\ InR(BE, sa, sb)
            /\ InR(BE, a, b)
            /\ InR(BE, XMul(a, sa), XMul(b, sb))
            /\ InR(BE, XMul(a, sa), XMul(XMul(b, sb), sminRes))

(* magnitude of the result: exact M as fraction n/d with d > 0             *)
DerivedN(op, a, sa, b, sb) ==
    IF op = "mul" THEN XMul(XMul(a, sa), XMul(b, sb))
    ELSE IF b.neg THEN XNeg(XMul(a, sa)) ELSE XMul(a, sa)
DerivedD(op, a, sa, b, sb) == IF op = "mul" THEN XOne ELSE XAbs(XMul(b, sb))

(* tolerance on the magnitude, multiplied by the denominator d (mul) or    *)
(* d^2 (div, dec) - returned as [lhsmul, tol] meaning                      *)
(*      |amt*S*d - n| * lhsmul <= tol                                      *)
DerivedTol(op, a, sa, b, sb, S, withS) ==
    LET aa == XAbs(a)  ab == XAbs(b)
        Sx == IF withS THEN S ELSE XZero
    IN
    IF REGIME = "exact" THEN [lm |-> XOne, tol |-> XZero]
    ELSE IF BE = "f64"
    THEN [lm |-> XOne, tol |-> RelTol(DerivedN(op, a, sa, b, sb))]
    ELSE IF op = "mul"
    THEN [lm |-> XOne,
          tol |-> AbsTol(XAdd(XAdd(XAdd(XInt(2), XMul(aa, ab)), XAdd(XMul(sa, sb), XMul(ab, sb))),
                              XAdd(XMul(aa, sa), Sx)))]
    ELSE \* |amt*S*b*sb - a*sa| * |b|sb <= Kd*d*( ((2+S)|b|sb + |a|sb + sa|b| + 1)*|b|sb + |a|sa )
         LET bsb == XMul(ab, sb) IN
         [lm |-> bsb,
          tol |-> AbsTol(XAdd(XMul(XAdd(XAdd(XMul(XAdd(XInt(2), Sx), bsb), XMul(aa, sb)),
                                        XAdd(XMul(sa, ab), XOne)), bsb),
                              XMul(aa, sa)))]

DerivedClauses(e) ==
    LET L == e.L  R == e.R  Res == e.Res
        kn  == IsRefT(L) /\ IsRefT(R) /\ IsRefT(Res) /\ KU(L, e.x.u) /\ KU(R, e.y.u)
        op  == e.op
        a   == e.x.a
        b   == e.y.a
        sa  == OScale(L, e.x.u)
        sb  == OScale(R, e.y.u)
        ok  == Ok(e.out)
        ru  == e.out.ok.u
        amt == e.out.ok.a
        knr == kn /\ ok /\ KU(Res, ru)
        S   == OScale(Res, ru)
        inr == IsFin(a) /\ IsFin(b) /\ DerivedInRange(op, a, sa, b, sb, SMin(L), SMin(R), SMin(Res))
        claim == IF BE = "f64" THEN TRUE ELSE inr
        n   == DerivedN(op, a, sa, b, sb)
        d   == DerivedD(op, a, sa, b, sb)
        nat == IF Ok(e.kref) THEN Natural(Res, e.kref.ok) ELSE {}
        tS  == DerivedTol(op, a, sa, b, sb, S, TRUE)
        tM  == DerivedTol(op, a, sa, b, sb, S, FALSE)
    IN << Cl("C04.known", TRUE, kn /\ op \in {"mul", "div"}),
          Cl("C18.total.derived", kn /\ claim, ok),
          Cl("C04.borrow", kn, SameOutcome(e.out, e.bl) /\ SameOutcome(e.out, e.br) /\ SameOutcome(e.out, e.bb)),
          Cl("C05.unit_of_result", kn /\ ok, KU(Res, ru)),
          \* the unit choice is the same for the owned and the borrowed operand forms
          Cl("C05.borrowed_forms", kn, SameOutcome(e.out, e.bl) /\ SameOutcome(e.out, e.br) /\ SameOutcome(e.out, e.bb)),
          Cl("C04.mag", knr /\ inr,
                 IsFin(amt) /\ XLe(XMul(XAbsDiff(XMul(XMul(amt, S), d), n), tS.lm), tS.tol)),
          Cl("C04.mag_published", knr /\ inr /\ (Dev(L, e.x.u) \/ Dev(R, e.y.u) \/ Dev(Res, ru)),
                 LET pa == PScale(L, e.x.u)  pb == PScale(R, e.y.u)  pS == PScale(Res, ru)
                     tP == DerivedTol(op, a, pa, b, pb, pS, TRUE)
                 IN  IsFin(amt) /\ XLe(XMul(XAbsDiff(XMul(XMul(amt, pS), DerivedD(op, a, pa, b, pb)), DerivedN(op, a, pa, b, pb)), tP.lm), tP.tol)),
          Cl("C04.inverse", knr /\ inr /\ Has(e, "back") /\ Ok(e.back) /\ ~XIsZero(b) /\ (BE = "f64" \/ REGIME = "exact")
                            /\ KU(L, e.back.ok.u),
                 \* (x op y) op^-1 y gives x back: same magnitude within three operations' rounding
                 LET Mx == XMul(a, sa)
                     Mb == XMul(e.back.ok.a, OScale(L, e.back.ok.u))
                     lhs == XAbsDiff(Mb, Mx)
                 IN  IsFin(e.back.ok.a) /\
                     (IF REGIME = "exact" THEN XIsZero(lhs)
                      ELSE XLe(lhs, XMulInt(RelTol(Mx), 3)) \/ XLe(lhs, XAdd(XMulInt(RelTol(Mx), 3), XScale2(OScale(L, e.back.ok.u), -1070))))),
          Cl("C05.ref_in_ref_out", knr /\ OUnit(L, e.x.u).is_ref /\ OUnit(R, e.y.u).is_ref,
                 OUnit(Res, ru).is_ref),
          Cl("C05.natural", knr /\ nat # {},
                 OIdxOf(Res, ru) \in nat /\ (Ok(e.ref) => SameAmount(amt, e.ref.ok))),
          Cl("C05.fit", knr /\ inr /\ nat = {},
                 \* band [n - t, n + t] over denominator d*lm
                 LET dd == XMul(d, tM.lm)
                     nn == XMul(n, tM.lm)
                 IN  OIdxOf(Res, ru) \in BestFitBand(Res, XSub(nn, tM.tol), XAdd(nn, tM.tol), dd)) >>

FitClauses(e) ==
    LET T   == e.T
        kn  == IsRefT(T)
        m   == e.m
        ok  == Ok(e.out)
        ru  == e.out.ok.u
        amt == e.out.ok.a
        knr == kn /\ ok /\ KU(T, ru)
        S   == OScale(T, ru)
        inr == IsFin(m) /\ InR(BE, m, XOne) /\ InR(BE, m, SMin(T))
        claim == IF BE = "f64" THEN TRUE ELSE inr
    IN << Cl("C05.known", TRUE, kn),
          Cl("C18.total.fit", kn /\ claim, ok),
          Cl("C05.unit_of_result", kn /\ ok, KU(T, ru)),
          Cl("C05.fit_direct", knr /\ IsFin(m), OIdxOf(T, ru) \in BestFitBand(T, m, m, XOne)),
          Cl("C05.fit_amount", knr /\ inr,
                 IsFin(amt) /\
                 LET lhs == XAbsDiff(XMul(amt, S), m) IN
                 IF REGIME = "exact" THEN XIsZero(lhs)
                 ELSE IF BE = "f64" THEN XLe(lhs, RelTol(m)) \/ XLe(lhs, XAdd(RelTol(m), XScale2(S, -1073)))
                 ELSE XLe(lhs, AbsTol(XAdd(XOne, S)))) >>

---------------------------------------------------------------------------
(* C09  look-ups: first match in iteration order                           *)
FirstIdx(T, P(_)) == LET S == {i \in DOMAIN OUnits(T) : P(OUnits(T)[i])} IN
                     IF S = {} THEN 0 ELSE CHOOSE i \in S : \A j \in S : i <= j
IdOrDash(T, i) == IF i = 0 THEN "-" ELSE OUnits(T)[i].id

LookupClauses(e) ==
    LET T  == e.T
        kn == KT(T)
        ok == Ok(e.out)
        expS == IdOrDash(T, FirstIdx(T, LAMBDA u : u.sym.cp = e.key.cp))
        expK == IF IsFin(e.key) THEN IdOrDash(T, FirstIdx(T, LAMBDA u : XEq(u.scale, e.key))) ELSE "-"
    IN << Cl("C09.known", TRUE, kn /\ e.by \in {"sym", "scale"}),
          Cl("C09.nopanic.lookup", kn, ok),
          Cl("C09.from_symbol", kn /\ ok /\ e.by = "sym", e.out.ok.unit = expS /\ e.out.ok.qty = expS),
          Cl("C09.from_scale", kn /\ ok /\ e.by = "scale" /\ OKind(T) = "ref",
                 e.out.ok.unit = expK /\ e.out.ok.qty = expK) >>

---------------------------------------------------------------------------
(* C07 / C09 / C11  observed registry against the declared one             *)
PfxPairsConsistent(T) ==
    LET us == OUnits(T)
        P  == {i \in DOMAIN us : us[i].pfx # "-" /\ SIKnown(us[i].pfx)}
    IN  \A i, j \in P :
          LET ei == SIExp(us[i].pfx)  ej == SIExp(us[j].pfx)
              \* s_i * 10^ej  vs  s_j * 10^ei
              li == XScale10(us[i].scale, ej)
              lj == XScale10(us[j].scale, ei)
          IN  IF BE = "dec" THEN XEq(li, lj)
              ELSE XLe(XAbsDiff(li, lj), XScale2(XMaxAbs(li, lj), -52))

TypeClauses(e) ==
    LET T  == e.T
        kn == T = "Amount" \/ DKnownT(T)
        dk == kn /\ T # "Amount"
        exp == ExpectedOrder(T)
        isref == e.kind = "ref"
        gen == dk /\ Decl.types[T].crate = "gen"
        declIds == IF dk THEN {DUnits(T)[i].id : i \in DOMAIN DUnits(T)} ELSE {}
        sameSet == Seq2Set(e.iter) = declIds
    IN << Cl("C09.known_type", TRUE, kn),
          Cl("C09.kind", dk, e.kind = DKind(T)),
          Cl("C09.iter_exact", dk /\ (sameSet \/ gen), e.iter = exp),
          \* the catalogue is a lower bound: units the declared catalogue does not know are judged by the generic
          \* rules only (declared ones keep their declared relative order; the whole iteration is ordered by scale)
          Cl("C09.iter_superset", dk /\ ~sameSet /\ ~gen,
                 /\ SelectSeq(e.iter, LAMBDA u : u \in declIds) = exp
                 /\ (isref /\ OKnownT(T)) =>
                        /\ Len(e.iter) = Len(OUnits(T))
                        /\ \A i \in DOMAIN e.iter : OUnits(T)[i].id = e.iter[i]
                        /\ \A i \in 1..(Len(e.iter) - 1) : XLe(OUnits(T)[i].scale, OUnits(T)[i + 1].scale)),
          Cl("C09.iter_units", kn, e.iter_units = e.iter),
          Cl("C09.consts", dk,
                 /\ Len(e.consts) = Len(DUnits(T))
                 /\ \A i \in DOMAIN DUnits(T) : \E j \in DOMAIN e.consts :
                        e.consts[j].c = DUnits(T)[i].const /\ e.consts[j].id = DUnits(T)[i].id),
          Cl("C09.ref_unit", dk /\ isref /\ DKind(T) = "ref",
                 e.ref_unit_q = DRefUnit(T) /\ e.ref_unit_u = DRefUnit(T)),
          Cl("C09.one_ref", kn /\ isref /\ OKnownT(T),
                 Cardinality({i \in DOMAIN OUnits(T) : OUnits(T)[i].is_ref}) = 1),
          Cl("C07.prefix_consistent", dk /\ isref /\ OKnownT(T) /\ Decl.types[T].crate # "gen", PfxPairsConsistent(T)),
          \* the amount type's own constants: one and zero
          Cl("C08.amount_constants", Has(e, "amnt_one"), SameAmount(e.amnt_one, XOne) /\ SameAmount(e.amnt_zero, XZero)),
          Cl("C08.amount_type", T = "Amount",
                 /\ e.iter = <<"One">> /\ e.kind = "ref"
                 /\ OUnits(T)[1].sym.cp = <<>> /\ XEq(OUnits(T)[1].scale, XOne)) >>

(* Identifier mapping of the macro, on code points (C11): the declared     *)
(* identifier is split into words at '_' and at lower->upper boundaries;   *)
(* name = '_' shown as space; variant = words capitalised and joined;      *)
(* constant = words upper-cased and joined by '_'.  Alphabetic identifiers *)
(* only (digits and acronyms are outside the claim).                       *)
IsUpper(c) == c >= 65 /\ c <= 90
IsLower(c) == c >= 97 /\ c <= 122
ToUpper(c) == IF IsLower(c) THEN c - 32 ELSE c
ToLower(c) == IF IsUpper(c) THEN c + 32 ELSE c
Alphabetic(w) == \A i \in DOMAIN w : IsUpper(w[i]) \/ IsLower(w[i]) \/ w[i] = 95
NameOf(w) == [i \in DOMAIN w |-> IF w[i] = 95 THEN 32 ELSE w[i]]
\* a new word starts at i
WordStart(w, i) == i = 1 \/ w[i - 1] = 95 \/ (IsUpper(w[i]) /\ IsLower(w[i - 1]))
RECURSIVE VariantCp(_, _)
VariantCp(w, i) == IF i > Len(w) THEN <<>>
                   ELSE IF w[i] = 95 THEN VariantCp(w, i + 1)
                   ELSE <<IF WordStart(w, i) THEN ToUpper(w[i]) ELSE ToLower(w[i])>> \o VariantCp(w, i + 1)
RECURSIVE ConstCp(_, _)
ConstCp(w, i) == IF i > Len(w) THEN <<>>
                 ELSE IF w[i] = 95 THEN <<95>> \o ConstCp(w, i + 1)
                 ELSE (IF WordStart(w, i) /\ i > 1 /\ w[i - 1] # 95 THEN <<95>> ELSE <<>>) \o <<ToUpper(w[i])>> \o ConstCp(w, i + 1)
ConstOf(w) == ConstCp(w, 1)
\* the variant is compared as a string: the registry carries the code points of every candidate id
VariantOfCp(w) == VariantCp(w, 1)
VariantOf(w) == LET v == VariantOfCp(w) IN
                IF \E T \in DOMAIN Decl.types : \E i \in DOMAIN Decl.types[T].units : Decl.types[T].units[i].id_cp = v
                THEN LET T == CHOOSE T \in DOMAIN Decl.types : \E i \in DOMAIN Decl.types[T].units : Decl.types[T].units[i].id_cp = v
                         i == CHOOSE i \in DOMAIN Decl.types[T].units : Decl.types[T].units[i].id_cp = v
                     IN  Decl.types[T].units[i].id
                ELSE "?"

(* scale against the declared definition n/d                               *)
ScaleMatches(u, f, term) ==
    LET s == u.scale
        sd == XMul(s, f.d)
    IN  IF BE = "dec"
        THEN IF term THEN XEq(sd, f.n)
             ELSE XLe(XAbsDiff(sd, f.n), XScale10(XAbs(f.d), -18))
        ELSE IF term
             THEN \* nearest double:  (lo + s)*d <= 2n <= (s + hi)*d
                  /\ XLe(XMul(XAdd(u.lo, s), f.d), XMulInt(f.n, 2))
                  /\ XLe(XMulInt(f.n, 2), XMul(XAdd(s, u.hi), f.d))
             ELSE XLe(XAbsDiff(sd, f.n), XScale2(XAbs(f.n), -52))

UnitClauses(e) ==
    LET T  == e.T
        kn == T # "Amount" /\ DKnownT(T) /\ DKnownU(T, e.id)
        du == DUnit(T, e.id)
        isref == Has(e, "scale")
        firstSym == IdOrDash(T, FirstIdx(T, LAMBDA u : u.sym.cp = e.sym.cp))
        firstScale == IdOrDash(T, FirstIdx(T, LAMBDA u : XEq(u.scale, e.scale)))
        \* predefined quantities are judged under C07, generated / synthetic declarations under C11
        P == IF kn /\ Decl.types[T].crate = "gen" THEN "C11" ELSE "C07"
        gen == DKnownT(T) /\ Decl.types[T].crate = "gen"
    IN << Cl("C09.declared_unit", T # "Amount" /\ (gen \/ ~DKnownT(T)), kn),
          \* a catalogue unit the declared catalogue does not know: no published definition to compare with;
          \* reported as a note (generic rules still apply to it), never as a violation
          Cl("NOTE.unit_not_in_catalogue", T # "Amount" /\ DKnownT(T) /\ ~gen, kn),
          Cl(P \o ".symbol", kn, e.sym.cp = du.sym_cp /\ e.display.cp = du.sym_cp),
          Cl(P \o ".name", kn, e.name.cp = du.name_cp),
          Cl(P \o ".prefix", kn, e.pfx = du.pfx),
          \* "their prefix exponents": the exponent that the unit's prefix reports is the SI brochure's
          Cl(P \o ".prefix_exponent", kn /\ Has(e, "pfx_exp") /\ e.pfx # "-" /\ SIKnown(e.pfx), e.pfx_exp = SIExp(e.pfx)),
          Cl(P \o ".scale", kn /\ isref /\ du.def.kind # "none", ScaleMatches(e, DScale(T, e.id), du.term)),
          Cl(P \o ".ref_scale_one", kn /\ isref /\ du.def.kind = "ref", XEq(e.scale, XOne) /\ e.is_ref),
          Cl("C11.variant_and_const_names", kn /\ Decl.types[T].crate = "gen" /\ Alphabetic(du.w_cp),
                 e.id = VariantOf(du.w_cp) /\ du.const_cp = ConstOf(du.w_cp) /\ du.name_cp = NameOf(du.w_cp)),
          Cl("C09.is_ref", kn /\ isref, e.is_ref = (du.def.kind = "ref")),
          Cl("C09.unit_from_symbol", OKnownT(T), e.from_symbol = firstSym),
          Cl("C09.unit_from_scale", OKnownT(T) /\ isref, e.from_scale = firstScale /\ e.unit_from_scale = firstScale),
          Cl("C09.as_qty", TRUE, e.as_qty.u = e.id /\ SameAmount(e.as_qty.a, XOne)) >>
=============================================================================
