----------------------------- MODULE Registry -----------------------------
(***************************************************************************)
(* The two registries the specification is parameterised with.             *)
(*   Decl : the DECLARED registry - what the types should be (written      *)
(*          independently of the code: spec/catalogue.json, model and      *)
(*          generated declarations), rendered for TLC by tools/qv.py.      *)
(*   Obs  : the OBSERVED registry - what the code reports about itself     *)
(*          (iter(), name(), symbol(), si_prefix(), scale(), constants).   *)
(* C07/C09/C11 compare Obs with Decl; the arithmetic properties take the   *)
(* structure from Decl and the scale values from Obs.                      *)
(***************************************************************************)
EXTENDS Exact, Json, IOUtils, TLC, FiniteSets

Decl == JsonDeserialize(IOEnv.DECL)
ObsFile == IOEnv.OBS

Range(f) == {f[i] : i \in DOMAIN f}
Has(r, k) == k \in DOMAIN r

---------------------------------------------------------------------------
\* Declared side
DKnownT(T) == T \in DOMAIN Decl.types
DUnits(T)  == Decl.types[T].units                      \* sequence, declaration order (reference unit first)
DIdxOf(T, u) == IF \E i \in DOMAIN DUnits(T) : DUnits(T)[i].id = u
                THEN CHOOSE i \in DOMAIN DUnits(T) : DUnits(T)[i].id = u ELSE 0
DKnownU(T, u) == DKnownT(T) /\ DIdxOf(T, u) # 0
DUnit(T, u)  == DUnits(T)[DIdxOf(T, u)]
DKind(T)     == IF T = "Amount" THEN "ref" ELSE Decl.types[T].kind
DDerive(T)   == Decl.types[T].derive
DRefUnitIdx(T) == IF \E i \in DOMAIN DUnits(T) : DUnits(T)[i].def.kind = "ref"
                  THEN CHOOSE i \in DOMAIN DUnits(T) : DUnits(T)[i].def.kind = "ref" ELSE 0
DRefUnit(T)  == IF T = "Amount" THEN "One" ELSE DUnits(T)[DRefUnitIdx(T)].id
DHasPfx(T, u) == T # "Amount" /\ DUnit(T, u).pfx # "-"

(* The scale a declared unit should have, as an exact fraction [n, d]      *)
(* (numerator and denominator exact numbers), obtained by chaining the     *)
(* definition down to the reference unit.                                  *)
RECURSIVE DScaleRaw(_, _)
RECURSIVE DProd(_)
DProd(us) == IF us = <<>> THEN [n |-> XOne, d |-> XOne]
             ELSE LET h == DScaleRaw(Head(us).T, Head(us).u)
                      r == DProd(Tail(us))
                  IN  [n |-> XMul(h.n, r.n), d |-> XMul(h.d, r.d)]
DScaleRaw(T, u) ==
    LET df == DUnit(T, u).def IN
    IF df.kind \in {"ref", "none"} THEN [n |-> XOne, d |-> XOne]
    ELSE IF df.kind = "of"
         THEN LET b == DScaleRaw(T, df.of)
              IN  [n |-> XMul(df.n, b.n), d |-> XMul(df.d, b.d)]
    ELSE \* "comp": f * prod(num) / prod(den)
         LET nn == DProd(df.num)
             dd == DProd(df.den)
         IN  [n |-> XMul(df.n, XMul(nn.n, dd.d)), d |-> XMul(df.d, XMul(nn.d, dd.n))]

\* evaluated once by TLC (constant-level definition)
DScaleTab == [T \in DOMAIN Decl.types |->
                [i \in DOMAIN Decl.types[T].units |-> DScaleRaw(T, Decl.types[T].units[i].id)]]
DScale(T, u) == DScaleTab[T][DIdxOf(T, u)]

---------------------------------------------------------------------------
(* The macro machine, dynamic part: Expand.  Transcription of analyze():   *)
(* the reference unit is inserted first, then the units in attribute       *)
(* order, then a STABLE sort by scale; without reference unit a stable     *)
(* sort by name.                                                           *)
RECURSIVE LexLess(_, _)
LexLess(s, t) == IF s = <<>> THEN t # <<>>
                 ELSE IF t = <<>> THEN FALSE
                 ELSE IF Head(s) < Head(t) THEN TRUE
                 ELSE IF Head(s) > Head(t) THEN FALSE
                 ELSE LexLess(Tail(s), Tail(t))

\* declared scale fraction of the i-th declared unit
DScaleI(T, i) == DScaleTab[T][i]
FracLess(f, g) == XLt(XMul(f.n, g.d), XMul(g.n, f.d))     \* denominators positive

UnitLess(T, i, j) ==
    IF DKind(T) = "ref" THEN FracLess(DScaleI(T, i), DScaleI(T, j))
    ELSE LexLess(DUnits(T)[i].name_cp, DUnits(T)[j].name_cp)
RECURSIVE InsertStable(_, _, _)
InsertStable(T, sorted, x) ==
    IF sorted = <<>> THEN <<x>>
    ELSE IF UnitLess(T, x, Head(sorted)) THEN <<x>> \o sorted
    ELSE <<Head(sorted)>> \o InsertStable(T, Tail(sorted), x)
RECURSIVE SortStable(_, _, _)
SortStable(T, xs, acc) ==
    IF xs = <<>> THEN acc ELSE SortStable(T, Tail(xs), InsertStable(T, acc, Head(xs)))

ExpectedOrderRaw(T) ==
    LET n   == Len(DUnits(T))
        ord == SortStable(T, [i \in 1..n |-> i], <<>>)
    IN  [k \in 1..n |-> DUnits(T)[ord[k]].id]
ExpOrderTab == [T \in DOMAIN Decl.types |-> ExpectedOrderRaw(T)]
ExpectedOrder(T) == ExpOrderTab[T]


(* What the generated code should report about itself: the registry        *)
(* obtained by expanding every declaration.  Used as the "observed"        *)
(* registry when the specification is model-checked on its own (OBS =      *)
(* "expand"); under trace validation Obs is what the real code reported.   *)
ExpandType(T) ==
    LET n   == Len(DUnits(T))
        ord == SortStable(T, [i \in 1..n |-> i], <<>>)
        isref == Decl.types[T].kind = "ref"
        unit(k) == LET du == DUnits(T)[ord[k]] IN
                   [id |-> du.id, name |-> [cp |-> du.name_cp], sym |-> [cp |-> du.sym_cp], pfx |-> du.pfx,
                    \* the macro takes the scale from the literal as written (reference unit: one)
                    scale |-> IF du.lit.k = "fin" THEN du.lit ELSE IF du.def.kind = "ref" THEN XOne ELSE DScaleTab[T][ord[k]].n,
                    is_ref |-> du.def.kind = "ref"]
    IN  [T |-> T, kind |-> Decl.types[T].kind,
         ref_unit_q |-> IF isref THEN DRefUnit(T) ELSE "-",
         units |-> [k \in 1..n |-> unit(k)]]
AmountObs == [T |-> "Amount", kind |-> "ref", ref_unit_q |-> "One",
              units |-> <<[id |-> "One", name |-> [cp |-> <<79, 110, 101>>], sym |-> [cp |-> <<>>], pfx |-> "-",
                           scale |-> XOne, is_ref |-> TRUE]>>]
ExpandedObs == [types |-> [T \in (DOMAIN Decl.types) \cup {"Amount"} |->
                              IF T = "Amount" THEN AmountObs ELSE ExpandType(T)]]

Obs == IF ObsFile = "expand" THEN ExpandedObs ELSE JsonDeserialize(ObsFile)

---------------------------------------------------------------------------
\* Observed side
OKnownT(T) == T \in DOMAIN Obs.types
OUnits(T)  == Obs.types[T].units                       \* sequence, iteration order
OIdxOf(T, u) == IF \E i \in DOMAIN OUnits(T) : OUnits(T)[i].id = u
                THEN CHOOSE i \in DOMAIN OUnits(T) : OUnits(T)[i].id = u ELSE 0
OKnownU(T, u) == OKnownT(T) /\ OIdxOf(T, u) # 0
OUnit(T, u)  == OUnits(T)[OIdxOf(T, u)]
OScale(T, u) == OUnit(T, u).scale
OKind(T)     == Obs.types[T].kind
OHasPfx(T, u) == OUnit(T, u).pfx # "-"
ORefUnit(T)  == Obs.types[T].ref_unit_q

---------------------------------------------------------------------------
(* The operator table generated from the declared derivations              *)
(* (transcription of codegen_impl_mul_div_qties).  An entry is             *)
(* [op, l, r, res].                                                        *)
OpsOfDv(T, dv) ==
    IF dv.op = "-" THEN {}
    ELSE IF dv.op = "*"
         THEN {[op |-> "mul", l |-> dv.l, r |-> dv.r, res |-> T],
               [op |-> "mul", l |-> dv.r, r |-> dv.l, res |-> T],
               [op |-> "div", l |-> T, r |-> dv.r, res |-> dv.l],
               [op |-> "div", l |-> T, r |-> dv.l, res |-> dv.r]}
         ELSE {[op |-> "div", l |-> dv.l, r |-> dv.r, res |-> T],
               [op |-> "mul", l |-> T, r |-> dv.r, res |-> dv.l],
               [op |-> "mul", l |-> dv.r, r |-> T, res |-> dv.l],
               [op |-> "div", l |-> dv.l, r |-> T, res |-> dv.r]}
OpsOf(T) == OpsOfDv(T, DDerive(T))
Ops == UNION {OpsOf(T) : T \in DOMAIN Decl.types}
=============================================================================
