----------------------------- MODULE Registry -----------------------------
(***************************************************************************)
(* The two registries the specification is parameterised with.             *)
(*   Decl : the DECLARED registry - what the types should be (written      *)
(*          independently of the code: spec/catalogue.json, model and      *)
(*          generated declarations), rendered for TLC by tools/qv.py.      *)
(*   Obs  : the OBSERVED registry - what the code reports about itself     *)
(*          (iter(), name(), symbol(), si_prefix(), scale(), constants).   *)
(* C07/C09/C11 compare Obs with Decl; the arithmetic properties take the   *)
(* structure from Decl and the scale values from Obs.                      *)
(***************************************************************************)
EXTENDS Exact, Json, IOUtils, TLC, FiniteSets

Decl == JsonDeserialize(IOEnv.DECL)
Obs  == JsonDeserialize(IOEnv.OBS)

Range(f) == {f[i] : i \in DOMAIN f}
Has(r, k) == k \in DOMAIN r

---------------------------------------------------------------------------
\* Observed side
OKnownT(T) == T \in DOMAIN Obs.types
OUnits(T)  == Obs.types[T].units                       \* sequence, iteration order
OIdxOf(T, u) == IF \E i \in DOMAIN OUnits(T) : OUnits(T)[i].id = u
                THEN CHOOSE i \in DOMAIN OUnits(T) : OUnits(T)[i].id = u ELSE 0
OKnownU(T, u) == OKnownT(T) /\ OIdxOf(T, u) # 0
OUnit(T, u)  == OUnits(T)[OIdxOf(T, u)]
OScale(T, u) == OUnit(T, u).scale
OKind(T)     == Obs.types[T].kind
OHasPfx(T, u) == OUnit(T, u).pfx # "-"
ORefUnit(T)  == Obs.types[T].ref_unit_q

---------------------------------------------------------------------------
\* Declared side
DKnownT(T) == T \in DOMAIN Decl.types
DUnits(T)  == Decl.types[T].units                      \* sequence, declaration order (reference unit first)
DIdxOf(T, u) == IF \E i \in DOMAIN DUnits(T) : DUnits(T)[i].id = u
                THEN CHOOSE i \in DOMAIN DUnits(T) : DUnits(T)[i].id = u ELSE 0
DKnownU(T, u) == DKnownT(T) /\ DIdxOf(T, u) # 0
DUnit(T, u)  == DUnits(T)[DIdxOf(T, u)]
DKind(T)     == IF T = "Amount" THEN "ref" ELSE Decl.types[T].kind
DDerive(T)   == Decl.types[T].derive
DRefUnitIdx(T) == IF \E i \in DOMAIN DUnits(T) : DUnits(T)[i].def.kind = "ref"
                  THEN CHOOSE i \in DOMAIN DUnits(T) : DUnits(T)[i].def.kind = "ref" ELSE 0
DRefUnit(T)  == IF T = "Amount" THEN "One" ELSE DUnits(T)[DRefUnitIdx(T)].id
DHasPfx(T, u) == T # "Amount" /\ DUnit(T, u).pfx # "-"

(* The scale a declared unit should have, as an exact fraction [n, d]      *)
(* (numerator and denominator exact numbers), obtained by chaining the     *)
(* definition down to the reference unit.                                  *)
RECURSIVE DScaleRaw(_, _)
RECURSIVE DProd(_)
DProd(us) == IF us = <<>> THEN [n |-> XOne, d |-> XOne]
             ELSE LET h == DScaleRaw(Head(us).T, Head(us).u)
                      r == DProd(Tail(us))
                  IN  [n |-> XMul(h.n, r.n), d |-> XMul(h.d, r.d)]
DScaleRaw(T, u) ==
    LET df == DUnit(T, u).def IN
    IF df.kind \in {"ref", "none"} THEN [n |-> XOne, d |-> XOne]
    ELSE IF df.kind = "of"
         THEN LET b == DScaleRaw(T, df.of)
              IN  [n |-> XMul(df.n, b.n), d |-> XMul(df.d, b.d)]
    ELSE \* "comp": f * prod(num) / prod(den)
         LET nn == DProd(df.num)
             dd == DProd(df.den)
         IN  [n |-> XMul(df.n, XMul(nn.n, dd.d)), d |-> XMul(df.d, XMul(nn.d, dd.n))]

\* evaluated once by TLC (constant-level definition)
DScaleTab == [T \in DOMAIN Decl.types |->
                [i \in DOMAIN Decl.types[T].units |-> DScaleRaw(T, Decl.types[T].units[i].id)]]
DScale(T, u) == DScaleTab[T][DIdxOf(T, u)]

---------------------------------------------------------------------------
(* The operator table generated from the declared derivations              *)
(* (transcription of codegen_impl_mul_div_qties).  An entry is             *)
(* [op, l, r, res].                                                        *)
OpsOf(T) ==
    LET dv == DDerive(T) IN
    IF dv.op = "-" THEN {}
    ELSE IF dv.op = "*"
         THEN {[op |-> "mul", l |-> dv.l, r |-> dv.r, res |-> T],
               [op |-> "mul", l |-> dv.r, r |-> dv.l, res |-> T],
               [op |-> "div", l |-> T, r |-> dv.r, res |-> dv.l],
               [op |-> "div", l |-> T, r |-> dv.l, res |-> dv.r]}
         ELSE {[op |-> "div", l |-> dv.l, r |-> dv.r, res |-> T],
               [op |-> "mul", l |-> T, r |-> dv.r, res |-> dv.l],
               [op |-> "mul", l |-> dv.r, r |-> T, res |-> dv.l],
               [op |-> "div", l |-> dv.l, r |-> T, res |-> dv.r]}
Ops == UNION {OpsOf(T) : T \in DOMAIN Decl.types}
=============================================================================
