----------------------------- MODULE MC_Registry -----------------------------
(***************************************************************************)
(* C09 / C11: the order in which a generated type lists its units, for     *)
(* EVERY declaration in a bounded family.  A declaration is a set of units *)
(* 1..n with scales from a three-value set (ties everywhere; 2 plays       *)
(* "one"), one of them the reference unit, written in some ATTRIBUTE ORDER *)
(* (a permutation).  Expand is the transcription of analyze(): reference   *)
(* unit first, then the other units in attribute order, then a STABLE sort *)
(* by scale.  Two attribute orders of the same declaration are explored    *)
(* side by side.                                                           *)
(***************************************************************************)
EXTENDS Integers, Sequences, FiniteSets, TLC
CONSTANT MaxUnits
VARIABLES n, sc, ref, p1, p2       \* sc: unit -> scale; p1, p2: attribute orders (sequences of units)

Perms(k) == {p \in [1..k -> 1..k] : \A i, j \in 1..k : i # j => p[i] # p[j]}
Init == /\ n \in 1..MaxUnits
        /\ sc \in [1..n -> 1..3]
        /\ ref \in 1..n /\ sc[ref] = 2
        /\ p1 \in Perms(n) /\ p2 \in Perms(n)
Next == UNCHANGED <<n, sc, ref, p1, p2>>

\* stable insertion sort by scale
RECURSIVE Insert(_, _)
Insert(sorted, u) == IF sorted = <<>> THEN <<u>>
                     ELSE IF sc[u] < sc[Head(sorted)] THEN <<u>> \o sorted
                     ELSE <<Head(sorted)>> \o Insert(Tail(sorted), u)
RECURSIVE SortAll(_, _)
SortAll(xs, acc) == IF xs = <<>> THEN acc ELSE SortAll(Tail(xs), Insert(acc, Head(xs)))
\* reference unit first, then the units in attribute order
Listed(p) == <<ref>> \o SelectSeq(p, LAMBDA u : u # ref)
Expand(p) == SortAll(Listed(p), <<>>)

Pos(s, u) == CHOOSE i \in DOMAIN s : s[i] = u
IsPermutation(s) == Len(s) = n /\ {s[i] : i \in DOMAIN s} = 1..n
SortedByScale(s) == \A i \in 1..(Len(s) - 1) : sc[s[i]] <= sc[s[i + 1]]
RefFirstAmongOne(s) == \A i \in DOMAIN s : sc[s[i]] = 2 => Pos(s, ref) <= i
\* other ties keep attribute order
TiesInAttributeOrder(s, p) ==
    \A i, j \in DOMAIN s : (i < j /\ sc[s[i]] = sc[s[j]] /\ s[i] # ref /\ s[j] # ref) => Pos(p, s[i]) < Pos(p, s[j])

Complete == IsPermutation(Expand(p1))
Ordered  == SortedByScale(Expand(p1)) /\ RefFirstAmongOne(Expand(p1)) /\ TiesInAttributeOrder(Expand(p1), p1)
\* reordering the attributes changes nothing except the relative order of units that share a scale
PermutationInvariant ==
    LET e1 == Expand(p1)  e2 == Expand(p2) IN
    /\ [i \in DOMAIN e1 |-> sc[e1[i]]] = [i \in DOMAIN e2 |-> sc[e2[i]]]
    /\ \A i \in DOMAIN e1 : (Cardinality({u \in 1..n : sc[u] = sc[e1[i]]}) = 1) => e1[i] = e2[i]
    /\ Pos(e1, ref) = Pos(e2, ref)
\* first-match look-up by scale is left inverse to scale() exactly on first occurrences
FirstWithScale(s, k) == LET S == {i \in DOMAIN s : sc[s[i]] = k} IN IF S = {} THEN 0 ELSE s[CHOOSE i \in S : \A j \in S : i <= j]
LookupInverse ==
    LET e == Expand(p1) IN
    /\ \A i \in DOMAIN e : (FirstWithScale(e, sc[e[i]]) = e[i]) = (\A j \in 1..(i - 1) : sc[e[j]] # sc[e[i]])
    /\ FirstWithScale(e, 2) = ref
    /\ \A k \in {0, 4} : FirstWithScale(e, k) = 0
=============================================================================
