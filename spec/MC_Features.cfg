SPECIFICATION FSpec
INVARIANT AlwaysBuilds
INVARIANT SelfContained
PROPERTY Monotone
CHECK_DEADLOCK FALSE
