--------------------------- MODULE FeatureRules ---------------------------
(***************************************************************************)
(* Rules of the configuration machine (C19): Requires are the edges a        *)
(* feature must pull in (the operands of the derived quantity it exposes), *)
(* Uses what a module needs to compile.  Written from the derivations of   *)
(* the declared catalogue, not from Cargo.toml.                            *)
(***************************************************************************)
EXTENDS Naturals, FiniteSets, Sequences, TLC

Feat == {"mass", "length", "duration", "area", "volume", "speed", "acceleration", "force", "energy",
         "power", "frequency", "datavolume", "datathroughput", "temperature"}

\* operands of the derivation of the quantity a feature exposes (Amount needs no feature)
Uses == [f \in Feat |->
    CASE f = "area"           -> {"length"}
      [] f = "volume"         -> {"length", "area"}
      [] f = "speed"          -> {"length", "duration"}
      [] f = "acceleration"   -> {"speed", "duration"}
      [] f = "force"          -> {"mass", "acceleration"}
      [] f = "energy"         -> {"force", "length"}
      [] f = "power"          -> {"energy", "duration"}
      [] f = "frequency"      -> {"duration"}
      [] f = "datathroughput" -> {"datavolume", "duration"}
      [] OTHER                -> {}]

\* closure of a feature set under a requires relation R (a function Feat -> SUBSET Feat)
RECURSIVE ClosureUnder(_, _)
ClosureUnder(R, S) == LET S2 == S \cup UNION {R[f] : f \in S} IN IF S2 = S THEN S ELSE ClosureUnder(R, S2)

\* a feature set builds iff every enabled module finds what it uses
BuildsUnder(R, U, S) == \A m \in ClosureUnder(R, S) : U[m] \subseteq ClosureUnder(R, S)

\* the design: Requires = Uses
Closure(S) == ClosureUnder(Uses, S)
Builds(S)  == BuildsUnder(Uses, Uses, S)

=============================================================================
