-------------------------------- MODULE SI --------------------------------
(***************************************************************************)
(* The SI prefixes, written from the SI brochure (9th edition, 2019, with  *)
(* the 2022 additions ronna, quetta, ronto, quecto) - not from the code.   *)
(* Names are given with a lower-case first letter as in the brochure;      *)
(* abbreviations as code points (micro is U+00B5 MICRO SIGN in the code    *)
(* base's convention; the brochure's Greek mu U+03BC is also accepted by   *)
(* nobody, see C16 clauses).                                               *)
(***************************************************************************)
EXTENDS Integers, Sequences

SITable == <<
  [id |-> "QUECTO", name |-> "quecto", abbr |-> <<113>>,      exp |-> -30],
  [id |-> "RONTO",  name |-> "ronto",  abbr |-> <<114>>,      exp |-> -27],
  [id |-> "YOCTO",  name |-> "yocto",  abbr |-> <<121>>,      exp |-> -24],
  [id |-> "ZEPTO",  name |-> "zepto",  abbr |-> <<122>>,      exp |-> -21],
  [id |-> "ATTO",   name |-> "atto",   abbr |-> <<97>>,       exp |-> -18],
  [id |-> "FEMTO",  name |-> "femto",  abbr |-> <<102>>,      exp |-> -15],
  [id |-> "PICO",   name |-> "pico",   abbr |-> <<112>>,      exp |-> -12],
  [id |-> "NANO",   name |-> "nano",   abbr |-> <<110>>,      exp |-> -9],
  [id |-> "MICRO",  name |-> "micro",  abbr |-> <<181>>,      exp |-> -6],
  [id |-> "MILLI",  name |-> "milli",  abbr |-> <<109>>,      exp |-> -3],
  [id |-> "CENTI",  name |-> "centi",  abbr |-> <<99>>,       exp |-> -2],
  [id |-> "DECI",   name |-> "deci",   abbr |-> <<100>>,      exp |-> -1],
  [id |-> "NONE",   name |-> "",       abbr |-> <<>>,         exp |-> 0],
  [id |-> "DECA",   name |-> "deca",   abbr |-> <<100, 97>>,  exp |-> 1],
  [id |-> "HECTO",  name |-> "hecto",  abbr |-> <<104>>,      exp |-> 2],
  [id |-> "KILO",   name |-> "kilo",   abbr |-> <<107>>,      exp |-> 3],
  [id |-> "MEGA",   name |-> "mega",   abbr |-> <<77>>,       exp |-> 6],
  [id |-> "GIGA",   name |-> "giga",   abbr |-> <<71>>,       exp |-> 9],
  [id |-> "TERA",   name |-> "tera",   abbr |-> <<84>>,       exp |-> 12],
  [id |-> "PETA",   name |-> "peta",   abbr |-> <<80>>,       exp |-> 15],
  [id |-> "EXA",    name |-> "exa",    abbr |-> <<69>>,       exp |-> 18],
  [id |-> "ZETTA",  name |-> "zetta",  abbr |-> <<90>>,       exp |-> 21],
  [id |-> "YOTTA",  name |-> "yotta",  abbr |-> <<89>>,       exp |-> 24],
  [id |-> "RONNA",  name |-> "ronna",  abbr |-> <<82>>,       exp |-> 27],
  [id |-> "QUETTA", name |-> "quetta", abbr |-> <<81>>,       exp |-> 30] >>

SIIds == {SITable[i].id : i \in DOMAIN SITable}
SIIdx(id) == CHOOSE i \in DOMAIN SITable : SITable[i].id = id
SIExp(id) == SITable[SIIdx(id)].exp
SIKnown(id) == id \in SIIds
=============================================================================
