-------------------------------- MODULE SI --------------------------------
(***************************************************************************)
(* The SI prefixes, written from the SI brochure (9th edition, 2019, with  *)
(* the 2022 additions ronna, quetta, ronto, quecto) - not from the code.   *)
(* Names are given with a lower-case first letter as in the brochure;      *)
(* abbreviations as code points (micro is U+00B5 MICRO SIGN in the code    *)
(* base's convention; the brochure's Greek mu U+03BC is also accepted by   *)
(* nobody, see C16 clauses).                                               *)
(***************************************************************************)
EXTENDS Integers, Sequences

SITable == <<
  [id |-> "QUECTO", name |-> "quecto", ncp |-> <<113, 117, 101, 99, 116, 111>>, abbr |-> <<113>>,      exp |-> -30],
  [id |-> "RONTO",  name |-> "ronto", ncp |-> <<114, 111, 110, 116, 111>>,  abbr |-> <<114>>,      exp |-> -27],
  [id |-> "YOCTO",  name |-> "yocto", ncp |-> <<121, 111, 99, 116, 111>>,  abbr |-> <<121>>,      exp |-> -24],
  [id |-> "ZEPTO",  name |-> "zepto", ncp |-> <<122, 101, 112, 116, 111>>,  abbr |-> <<122>>,      exp |-> -21],
  [id |-> "ATTO",   name |-> "atto", ncp |-> <<97, 116, 116, 111>>,   abbr |-> <<97>>,       exp |-> -18],
  [id |-> "FEMTO",  name |-> "femto", ncp |-> <<102, 101, 109, 116, 111>>,  abbr |-> <<102>>,      exp |-> -15],
  [id |-> "PICO",   name |-> "pico", ncp |-> <<112, 105, 99, 111>>,   abbr |-> <<112>>,      exp |-> -12],
  [id |-> "NANO",   name |-> "nano", ncp |-> <<110, 97, 110, 111>>,   abbr |-> <<110>>,      exp |-> -9],
  [id |-> "MICRO",  name |-> "micro", ncp |-> <<109, 105, 99, 114, 111>>,  abbr |-> <<181>>,      exp |-> -6],
  [id |-> "MILLI",  name |-> "milli", ncp |-> <<109, 105, 108, 108, 105>>,  abbr |-> <<109>>,      exp |-> -3],
  [id |-> "CENTI",  name |-> "centi", ncp |-> <<99, 101, 110, 116, 105>>,  abbr |-> <<99>>,       exp |-> -2],
  [id |-> "DECI",   name |-> "deci", ncp |-> <<100, 101, 99, 105>>,   abbr |-> <<100>>,      exp |-> -1],
  [id |-> "NONE",   name |-> "", ncp |-> <<>>,       abbr |-> <<>>,         exp |-> 0],
  [id |-> "DECA",   name |-> "deca", ncp |-> <<100, 101, 99, 97>>,   abbr |-> <<100, 97>>,  exp |-> 1],
  [id |-> "HECTO",  name |-> "hecto", ncp |-> <<104, 101, 99, 116, 111>>,  abbr |-> <<104>>,      exp |-> 2],
  [id |-> "KILO",   name |-> "kilo", ncp |-> <<107, 105, 108, 111>>,   abbr |-> <<107>>,      exp |-> 3],
  [id |-> "MEGA",   name |-> "mega", ncp |-> <<109, 101, 103, 97>>,   abbr |-> <<77>>,       exp |-> 6],
  [id |-> "GIGA",   name |-> "giga", ncp |-> <<103, 105, 103, 97>>,   abbr |-> <<71>>,       exp |-> 9],
  [id |-> "TERA",   name |-> "tera", ncp |-> <<116, 101, 114, 97>>,   abbr |-> <<84>>,       exp |-> 12],
  [id |-> "PETA",   name |-> "peta", ncp |-> <<112, 101, 116, 97>>,   abbr |-> <<80>>,       exp |-> 15],
  [id |-> "EXA",    name |-> "exa", ncp |-> <<101, 120, 97>>,    abbr |-> <<69>>,       exp |-> 18],
  [id |-> "ZETTA",  name |-> "zetta", ncp |-> <<122, 101, 116, 116, 97>>,  abbr |-> <<90>>,       exp |-> 21],
  [id |-> "YOTTA",  name |-> "yotta", ncp |-> <<121, 111, 116, 116, 97>>,  abbr |-> <<89>>,       exp |-> 24],
  [id |-> "RONNA",  name |-> "ronna", ncp |-> <<114, 111, 110, 110, 97>>,  abbr |-> <<82>>,       exp |-> 27],
  [id |-> "QUETTA", name |-> "quetta", ncp |-> <<113, 117, 101, 116, 116, 97>>, abbr |-> <<81>>,       exp |-> 30] >>

SIIds == {SITable[i].id : i \in DOMAIN SITable}
SIIdx(id) == CHOOSE i \in DOMAIN SITable : SITable[i].id = id
SIExp(id) == SITable[SIIdx(id)].exp
SIKnown(id) == id \in SIIds
=============================================================================
