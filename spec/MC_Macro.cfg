CONSTANT MaxLen = 9
INIT Init
NEXT Next
INVARIANT AcceptsExactlyDocumented
INVARIANT FlagsAgree
CHECK_DEADLOCK FALSE
