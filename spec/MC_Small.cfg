INIT LInit
NEXT LNext
INVARIANT LayoutOK
INVARIANT SIOneToOne
INVARIANT RoundTripImpliesInjective
CHECK_DEADLOCK FALSE
